#!/bin/bash
# usage: mut.sh <check-id> <file-rel-to-repo> <python-expr old> <python-expr new>   (applies in /repo, runs quick check, reverts)
id="$1"; f="$2"; old="$3"; new="$4"
cd /repo
git diff --quiet || { echo "repo dirty"; exit 9; }
python3 - "$f" "$old" "$new" <<'PY'
import sys
f,old,new=sys.argv[1:4]
s=open(f).read()
assert s.count(old)>=1, 'pattern not found'
s=s.replace(old,new,1)
open(f,'w').write(s)
PY
[ $? -eq 0 ] || exit 8
cd /verif; ./check "$id" --no-evidence 2>&1 | grep -E "VIOLATION|KNOWN|HARNESS|tier=" | cut -c1-300
git -C /repo checkout -- .

#!/bin/bash
# usage: mutc.sh <check-id> <file-rel-to-repo> <old text> <new text> [extra check args]
# Applies a textual change to a PRIVATE scratch copy of /repo (never /repo itself), runs the quick check on it, removes the copy.
id="$1"; f="$2"; old="$3"; new="$4"; shift 4
d=$(mktemp -d /tmp/vfmut.XXXXXX)
rsync -a --exclude .git --exclude tests --exclude docs --exclude build /repo/ "$d/"
python3 - "$d/$f" "$old" "$new" <<'PY'
import sys
f,old,new=sys.argv[1:4]
s=open(f).read()
assert s.count(old)>=1, 'pattern not found'
s=s.replace(old,new,1)
open(f,'w').write(s)
PY
rc=$?
if [ $rc -eq 0 ]; then
  cd /verif; VT_REPO="$d" timeout 1500 ./check "$id" --no-evidence "$@" 2>&1 | grep -E "VIOLATION|KNOWN|HARNESS|tier=|^--- " | cut -c1-300
fi
rm -rf "$d"

#!/bin/bash
# usage: patchc.sh <check-id> <patch.diff (git diff against /repo)> [extra check args]
# Applies a patch to a PRIVATE scratch copy of /repo (never /repo itself), runs the check on it from a snapshot of /verif, removes both.
id="$1"; p="$2"; shift 2
d=$(mktemp -d /tmp/vfpat.XXXXXX); snap=$(mktemp -d /tmp/vsnap.XXXXXX)
rsync -a --exclude .git --exclude docs --exclude build /repo/ "$d/"
rsync -a --exclude .git --exclude .deps --exclude evidence --exclude replays --exclude seeded --exclude .scratch /verif/ "$snap/"
( cd "$d" && patch -p1 --no-backup-if-mismatch < "$p" ) || { echo "patch failed"; rm -rf "$d" "$snap"; exit 8; }
( cd "$snap" && VT_REPO="$d" timeout 2400 ./check "$id" --no-evidence "$@" > "$snap/.out" 2>&1; echo "EXIT rc=$?" >> "$snap/.out"; grep -E "^VIOLATION|^--- |HARNESS|KNOWN|NOTE|tier=|Error|error|^EXIT" "$snap/.out" | cut -c1-400 )
rm -rf "$d" "$snap"

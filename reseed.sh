#!/bin/bash
# usage: reseed.sh <seed dir name, e.g. C07-A> [check ids...]   (default: the property's own check)
# Re-runs the quick check(s) on a private copy of /repo with seeded/<name>/patch.diff applied; rewrites check_<id>.log and
# the our_checks entry of meta.json. (The confirmation - tests pass, demo fails - was done once by seedtest2.sh and is kept.)
name="$1"; shift
id=${name%%-*}
dst=/verif/seeded/$name
checks="$*"; [ -z "$checks" ] && checks=$(python3 -c "import json;print(' '.join(json.load(open('$dst/meta.json'))['our_checks'].keys()))")
d=$(mktemp -d /tmp/seedchk.XXXXXX); snap=$(mktemp -d /tmp/vsnap.XXXXXX)
rsync -a --exclude .git --exclude docs --exclude build /repo/ "$d/"
rsync -a --exclude .git --exclude .deps --exclude evidence --exclude replays --exclude seeded --exclude .scratch /verif/ "$snap/"
( cd "$d" && patch -p1 --no-backup-if-mismatch < "$dst/patch.diff" ) > /dev/null 2>&1 || { echo "$name patch failed"; rm -rf "$d" "$snap"; exit 8; }
res=""
for c in $checks; do
  out=$(cd "$snap" && VT_REPO="$d" timeout 2400 ./check "$c" --no-evidence 2>&1); rc=$?
  echo "$out" | grep -E "^--- |VIOLATION|HARNESS|NOTE|tier=" | cut -c1-400 > "$dst/check_$c.log"
  nv=$(echo "$out" | grep -c "^VIOLATION")
  res="$res $c:rc=$rc:violations=$nv"
done
rm -rf "$d" "$snap"
python3 - "$dst" "$res" <<'PY'
import sys, json
dst, res = sys.argv[1:3]
m = json.load(open(dst + '/meta.json'))
for r in res.split():
    c, rc, nv = r.split(':')
    m['our_checks'][c] = dict(rc=int(rc[3:]), violations=int(nv[11:]))
json.dump(m, open(dst + '/meta.json', 'w'), indent=1)
PY
echo "$name$res"

#!/bin/bash
# usage: seedtest.sh <property id> <letter> [extra check ids...]
# Confirms an independently written property-breaking change (from /tmp/out_<id>/<letter>.diff + demo_<letter>.py) in a scratch copy:
#   baseline tests pass with it, its demonstration fails with it and passes without, then runs our quick check(s) on it.
# Results and the artefacts go to /verif/seeded/<id>-<letter>/ . /repo itself is never touched.
id="$1"; L="$2"; shift 2
src=${SEED_SRC:-/tmp/out}_$id
dst=/verif/seeded/$id-$L
mkdir -p "$dst"
d=$(mktemp -d /tmp/seedchk.XXXXXX)
snap=$(mktemp -d /tmp/vsnap.XXXXXX)
rsync -a --exclude .git --exclude .deps --exclude evidence --exclude replays --exclude seeded --exclude .scratch /verif/ "$snap/"
rsync -a --exclude .git --exclude docs --exclude build /repo/ "$d/"
cp "$src/$L.diff" "$dst/patch.diff"; cp "$src/demo_$L.py" "$dst/demo.py"; cp "$src"/_*.py "$dst/" 2>/dev/null
( cd "$d" && patch -p1 --no-backup-if-mismatch < "$dst/patch.diff" ) > "$dst/apply.log" 2>&1; applied=$?
export NUMBA_NUM_THREADS=16 OMP_WAIT_POLICY=PASSIVE
( cd "$d" && timeout 1500 /venv/bin/python -m pytest -q -p no:cacheprovider --timeout=900 tests/test_util.py tests/test_tsc.py -k "not test_multi" 2>&1 | tail -3 ) > "$dst/tests.log" 2>&1
tests=$(grep -c "30 passed" "$dst/tests.log")
( cd "$d" && PYTHONPATH="$d:/verif/shims:/verif/.deps" timeout 900 /venv/bin/python "$dst/demo.py" ) > "$dst/demo_with.log" 2>&1; with=$?
( cd /tmp && PYTHONPATH="/repo:/verif/shims:/verif/.deps" timeout 900 /venv/bin/python "$dst/demo.py" ) > "$dst/demo_without.log" 2>&1; without=$?
res=""
for c in $id "$@"; do
  out=$(cd "$snap" && VT_REPO="$d" timeout 2400 ./check "$c" --no-evidence 2>&1)
  rc=$?
  echo "$out" | grep -E "^--- |VIOLATION|HARNESS|NOTE|tier=" | cut -c1-400 > "$dst/check_$c.log"
  nv=$(echo "$out" | grep -c "^VIOLATION")
  res="$res $c:rc=$rc:violations=$nv"
done
rm -rf "$d" "$snap"
python3 - "$id" "$L" "$applied" "$tests" "$with" "$without" "$res" "$src" "$dst" <<'PY'
import sys, json, re
id,L,applied,tests,w,wo,res,src,dst=sys.argv[1:10]
notes=open(src+'/notes.md').read() if True else ''
meta=dict(property=id, variant=L, source='independent sub-agent given only the property text and a scratch worktree',
          patch_applies=(applied=='0'), baseline_tests_pass_with_change=(tests!='0'),
          demo_exit_with_change=int(w), demo_exit_without_change=int(wo),
          confirmed=(applied=='0' and tests!='0' and int(w)!=0 and int(wo)==0),
          our_checks={r.split(':')[0]: dict(rc=int(r.split(':')[1][3:]), violations=int(r.split(':')[2][11:])) for r in res.split()},
          needs_to_manifest=None, ran=['pytest tests/test_util.py tests/test_tsc.py -k "not test_multi" in a scratch copy with the patch',
                                       'demo.py with and without the patch', 'quick checks with VT_REPO=<scratch copy>'])
import os
if os.environ.get('WAVE'): meta['wave']=int(os.environ['WAVE'])
json.dump(meta, open(dst+'/meta.json','w'), indent=1)
open(dst+'/notes.md','w').write(notes)
print(id, L, 'confirmed' if meta['confirmed'] else 'NOT-CONFIRMED', meta['our_checks'], 'tests', tests, 'demo', w, wo)
PY

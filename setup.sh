#!/bin/bash
# offline setup: scipy into /verif/.deps (the repo's power_spectrum / hod modules import it), self-checks
set -e
cd "$(dirname "$0")"
if [ ! -d .deps/scipy ]; then
  /venv/bin/pip install --no-index --no-deps --find-links /opt/veriftools/wheels --target .deps scipy >/dev/null
fi
export PYTHONPATH="/repo:/verif/shims:/verif/.deps:/verif" PYTHONHASHSEED=0
/venv/bin/python - <<'PY'
import scipy.fft, numpy as np
assert scipy.fft.rfftn(np.ones((2,2,2))).shape == (2,2,2)
import blosc, Corrfunc.theory, parallel_numpy_rng
import abacusnbody.data.asdf
print('setup ok')
PY

"""Import-only stub (Corrfunc is not installed; unused by the checked properties)."""

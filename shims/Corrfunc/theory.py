def _na(*a, **k):
    raise RuntimeError('Corrfunc is stubbed in /verif/shims')
wp = xi = DDrppi = DDsmu = DD = _na

"""Strict stand-in for python-blosc (not installable offline).

Environment double, never code under test.  A frame is
    b'VBLS' | u32le ncomp | u32le nraw | u32le typesize | zlib(payload)[ncomp] | u32le crc32(raw)
so it is self-delimiting: ``decompress_ptr`` given one byte too few or too many,
or a buffer that does not start on a frame boundary, raises instead of writing
garbage.  That turns any mis-framing by abacusutils' reassembler into an
exception the checks see.
"""
import ctypes
import struct
import zlib

SHUFFLE, NOSHUFFLE, BITSHUFFLE = 1, 0, 2
_MAGIC = b'VBLS'
_nthreads = 1
_blocksize = 0
# optional hard cap for writes through decompress_ptr: (base, size) or None
WRITE_WINDOW = None
LOG = None  # list to append (addr, n) writes to, when set


def set_nthreads(n):
    global _nthreads
    old, _nthreads = _nthreads, n
    return old


def set_blocksize(n):
    global _blocksize
    _blocksize = n


def compress(data, typesize=8, clevel=9, shuffle=SHUFFLE, cname='blosclz', **kw):
    if kw:
        raise TypeError(f'unexpected blosc.compress kwargs {sorted(kw)}')
    raw = bytes(memoryview(data).cast('B')) if not isinstance(data, bytes) else data
    comp = zlib.compress(raw, 1)
    return (_MAGIC + struct.pack('<III', len(comp), len(raw), int(typesize))
            + comp + struct.pack('<I', zlib.crc32(raw)))


MAX_TYPESIZE = 255
MAX_BUFFERSIZE = 2 ** 31 - 1 - 16


def compress_ptr(address, items, typesize=8, clevel=9, shuffle=SHUFFLE, cname='blosclz', **kw):
    """python-blosc's zero-copy entry point: `items` elements of `typesize` bytes starting at `address`"""
    return compress(ctypes.string_at(address, int(items) * int(typesize)), typesize=typesize, clevel=clevel, shuffle=shuffle, cname=cname, **kw)


def get_cbuffer_sizes(buf):
    """(uncompressed bytes, compressed bytes, block size) of one frame"""
    b = bytes(buf)
    if b[:4] != _MAGIC:
        raise ValueError('not a frame')
    ncomp, nraw, _ = struct.unpack('<III', b[4:16])
    return nraw, 16 + ncomp + 4, _blocksize or nraw


def mini_frame(raw):
    """Tiny self-checking frame (3 + len(raw) bytes) used by exhaustive chunk-composition checks."""
    raw = bytes(raw)
    assert len(raw) < 256
    return b'm' + bytes([len(raw)]) + raw + bytes([(sum(raw) + len(raw) + 0x5C) & 0xFF])


def _parse(buf):
    b = bytes(memoryview(buf).cast('B')) if not isinstance(buf, bytes) else buf
    if len(b) >= 3 and b[:1] == b'm':
        n = b[1]
        if len(b) != 3 + n or b[-1] != (sum(b[2:-1]) + n + 0x5C) & 0xFF:
            raise ValueError(f'blosc shim: bad mini frame {b!r}')
        return b[2:-1]
    if len(b) < 20 or b[:4] != _MAGIC:
        raise ValueError(f'blosc shim: not a frame start ({b[:8]!r}, len {len(b)})')
    ncomp, nraw, ts = struct.unpack('<III', b[4:16])
    if len(b) != 16 + ncomp + 4:
        raise ValueError(f'blosc shim: frame length {len(b)} != {16 + ncomp + 4}')
    raw = zlib.decompress(b[16:16 + ncomp])
    (crc,) = struct.unpack('<I', b[16 + ncomp:])
    if len(raw) != nraw or zlib.crc32(raw) != crc:
        raise ValueError('blosc shim: payload corrupt')
    return raw


def decompress(buf, as_bytearray=False):
    raw = _parse(buf)
    return bytearray(raw) if as_bytearray else raw


def decompress_ptr(buf, address, **kw):
    if kw:
        raise TypeError(f'unexpected blosc.decompress_ptr kwargs {sorted(kw)}')
    raw = _parse(buf)
    if WRITE_WINDOW is not None:
        base, size = WRITE_WINDOW
        if not (base <= address and address + len(raw) <= base + size):
            raise ValueError(f'blosc shim: write [{address - base}, {address - base + len(raw)}) outside output of {size} bytes')
    if LOG is not None:
        LOG.append((address, len(raw)))
    ctypes.memmove(address, raw, len(raw))
    return len(raw)

"""Import-only stub of parallel_numpy_rng (unused by the checked properties)."""
import numpy as np
class MTGenerator:
    def __init__(self, bitgen, nthread=1):
        self._g = np.random.Generator(bitgen)
    def random(self, size=None, dtype=np.float64, **kw):
        return self._g.random(size=size, dtype=dtype)
    def standard_normal(self, size=None, dtype=np.float64, **kw):
        return self._g.standard_normal(size=size, dtype=dtype)
def default_rng(seed=None, nthread=1):
    return MTGenerator(np.random.PCG64(seed), nthread=nthread)

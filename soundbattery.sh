#!/bin/bash
# usage: soundbattery.sh [dir with rev_*.diff] [parallel jobs]   (default soundness/, 3)
# Runs, for every behaviour-preserving reviewer diff, the quick check of the property it targets on a private patched copy.
# Prints one line per diff: SILENT | ALARM (with the signatures). Nothing in /repo is touched.
dir=${1:-/verif/soundness}; jobs=${2:-3}
one() {
  p="$1"; b=$(basename "$p" .diff)
  id=$(echo "$b" | sed -E 's/^rev_g[0-9]_//' | grep -oiE '^c[0-9]{2}' | tr a-z A-Z)
  if [ -z "$id" ]; then   # group 1 names: A*=C01 B*=C02 C*=C03 D*=C05
    case "$b" in rev_g1_A*) id=C01;; rev_g1_B*) id=C02;; rev_g1_C*) id=C03;; rev_g1_D*) id=C05;; esac
  fi
  out=$(/verif/patchc.sh "$id" "$p" 2>&1)
  if echo "$out" | grep -qE "^VIOLATION|HARNESS"; then
    echo "ALARM  $id $b :: $(echo "$out" | grep -E '^--- |HARNESS' | cut -c1-120 | tr '\n' '|')"
  elif echo "$out" | grep -q "^EXIT rc=0"; then
    echo "SILENT $id $b notes=$(echo "$out" | grep -c NOTE)"
  else
    echo "???    $id $b :: $(echo "$out" | tail -2 | cut -c1-200 | tr '\n' '|')"
  fi
}
export -f one
ls "$dir"/rev_*.diff | xargs -P "$jobs" -I{} bash -c 'one {}'

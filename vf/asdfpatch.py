"""asdf 5.4.0 regression workaround for *writing* 'blsc' blocks from the harness.

asdf._compression.compress builds the documented contiguous 1-D memoryview but then hands the
original ndarray to Compressor.compress; abacusutils' BloscCompressor.compress (correctly) relies on
the memoryview API (`data.contiguous`).  Reading is unaffected.  Not an abacusutils defect.
"""
import typing
import numpy as np


def patch():
    import asdf._compression as ac
    if getattr(ac, '_vf_patched', False):
        return

    def compress(fd, data, compression, config=None):
        compression = typing.cast('str', ac.validate(compression))
        encoder = ac._get_compressor(compression)
        if config is None:
            config = {}
        view = memoryview(data)
        if not view.contiguous:
            view = memoryview(view.tobytes())
        view = memoryview(np.frombuffer(view, dtype=view.format))
        for comp in encoder.compress(view, **config):
            fd.write(comp)
    ac.compress = compress
    ac._vf_patched = True

"""C04 helpers: alphabets, encoders and vectorised reference decoders for RVint and the packed aux/PID word.

Everything here is written from the documented bit layout in the property statement:
  RVint word (32 bit): bits 12-31 = position, signed two's-complement 20-bit count of BoxSize/1e6 quanta;
                       bits 0-11  = velocity, biased by 2048, in quanta of 6000/2048 km/s.
  aux word (64 bit):   bits 0-14 / 16-30 / 32-46 = Lagrangian index x / y / z, bit 48 = tagged,
                       bits 49-58 = density (stored as sqrt, decoded value is the square),
                       particle id = the word with every bit outside the three index fields cleared,
                       lagr_pos = idx * BoxSize/ppd - BoxSize/2.   Bits 15, 31, 47, 59-63 are unused.
Nothing in this file imports or calls abacusnbody.
"""
import numpy as np

M64 = (1 << 64) - 1


def _splitmix(n, seed):
    """n fixed pseudo-random 64-bit words (splitmix64), pure python ints."""
    out = []
    x = seed & M64
    for _ in range(n):
        x = (x + 0x9E3779B97F4A7C15) & M64
        z = x
        z = ((z ^ (z >> 30)) * 0xBF58476D1CE4E5B9) & M64
        z = ((z ^ (z >> 27)) * 0x94D049BB133111EB) & M64
        out.append(z ^ (z >> 31))
    return out


# ------------------------------------------------------------------ RVint alphabets
# 8 backgrounds of the 12 velocity bits used while the 20 position bits are swept
VEL_BG = [0x000, 0xFFF, 0x800, 0x7FF, 0xAAA, 0x555, 0x001, 0x3C5]
# 64 backgrounds of the 20 position bits used while the 12 velocity bits are swept
POS_BG = ([0x00000, 0xFFFFF, 0x80000, 0x7FFFF, 0xAAAAA, 0x55555]
          + [1 << i for i in range(19)]                  # 1<<19 is 0x80000 above
          + [0xFFFFF ^ (1 << i) for i in range(19)]      # 0xFFFFF^(1<<19) is 0x7FFFF above
          + [w & 0xFFFFF for w in _splitmix(20, 4)])
assert len(VEL_BG) == 8 and len(POS_BG) == 64 and len(set(POS_BG)) == 64

VEL_Q = 6000.0 / 2048.0          # = 375/128, exactly representable


def nuniq(a):
    """number of distinct values (sort based; numpy's hash-based unique is slow here)"""
    b = np.sort(np.asarray(a).ravel())
    return 0 if b.size == 0 else 1 + int(np.count_nonzero(b[1:] != b[:-1]))


def rv_tables(box):
    """pos_tab[f] for the raw unsigned 20-bit field f, vel_tab[l] for the raw 12-bit field l (float64)."""
    f = np.arange(1 << 20, dtype=np.int64)
    s = np.where(f >= (1 << 19), f - (1 << 20), f)          # two's complement of 20 bits
    pos_tab = s.astype(np.float64) * (float(box) / 1e6)
    lo = np.arange(1 << 12, dtype=np.int64)
    vel_tab = (lo - 2048).astype(np.float64) * VEL_Q
    return pos_tab, vel_tab


def signed_hi(u):
    """signed 20-bit position count of uint32 words, as int64"""
    f = (u >> np.uint32(12)).astype(np.int64)
    return (f ^ 0x80000) - 0x80000


def encode_pos(x, box):
    """position (same units as box) -> signed count of quanta, nearest"""
    return np.rint(np.asarray(x, dtype=np.float64) / (float(box) / 1e6)).astype(np.int64)


def encode_vel(v):
    """velocity in km/s -> raw 12-bit field"""
    return np.rint(np.asarray(v, dtype=np.float64) / VEL_Q).astype(np.int64) + 2048


def words_pos_sweep(bg):
    """(2^20, 3) uint32: every column sees every 20-bit position field once; the three columns are
    offset against each other and carry different velocity backgrounds (so a column mix-up shows)."""
    r = np.arange(1 << 20, dtype=np.uint32)
    cols = []
    for c in range(3):
        f = (r + np.uint32(c * 0x55555)) & np.uint32(0xFFFFF)
        cols.append((f << np.uint32(12)) | np.uint32(VEL_BG[(bg + c) % 8]))
    return np.ascontiguousarray(np.stack(cols, axis=1))


def words_vel_sweep():
    """(64 * 2^12, 3) uint32: every column sees every 12-bit velocity field under each of the 64 position backgrounds."""
    lo = np.arange(1 << 12, dtype=np.uint32)
    blocks = []
    for b in range(64):
        cols = []
        for c in range(3):
            l = (lo + np.uint32(c * 0x555)) & np.uint32(0xFFF)
            cols.append((np.uint32(POS_BG[(b + 21 * c) % 64]) << np.uint32(12)) | l)
        blocks.append(np.stack(cols, axis=1))
    return np.ascontiguousarray(np.concatenate(blocks))


def words_full_block(base, n):
    """(n, 3) uint32: row r carries the words base+r, base+r+1, base+r+2 (mod 2^32)."""
    r = np.arange(n, dtype=np.uint32) + np.uint32(base & 0xFFFFFFFF)
    u = np.empty((n, 3), dtype=np.uint32)
    u[:, 0] = r
    np.add(r, np.uint32(1), out=u[:, 1])
    np.add(r, np.uint32(2), out=u[:, 2])
    return u


# ------------------------------------------------------------------ aux / PID alphabets
FIELDS = [('ix', 0, 15), ('iy', 16, 15), ('iz', 32, 15), ('tagged', 48, 1), ('dens', 49, 10)]
UNUSED_BITS = [15, 31, 47, 59, 60, 61, 62, 63]
ID_MASK = 0x7FFF | (0x7FFF << 16) | (0x7FFF << 32)
PID_BG = ([0, M64, 0xAAAAAAAAAAAAAAAA, 0x5555555555555555]
          + [1 << b for b in UNUSED_BITS]
          + _splitmix(4, 2026))
assert len(PID_BG) == 16
# all 64 bits are accounted for
assert sum(((1 << w) - 1) << s for _, s, w in FIELDS) | sum(1 << b for b in UNUSED_BITS) == M64


def pid_sweep():
    """Every value of every field x 16 backgrounds of all the other bits.
    Returns packed (uint64), field id, background id, field value (int64 each)."""
    P, F, B, V = [], [], [], []
    for fi, (_, sh, w) in enumerate(FIELDS):
        mask = ((1 << w) - 1) << sh
        v = np.arange(1 << w, dtype=np.uint64)
        for bi, bg in enumerate(PID_BG):
            P.append((v << np.uint64(sh)) | np.uint64(bg & ~mask & M64))
            F.append(np.full(len(v), fi, dtype=np.int64))
            B.append(np.full(len(v), bi, dtype=np.int64))
            V.append(v.astype(np.int64))
    return (np.ascontiguousarray(np.concatenate(P)), np.concatenate(F), np.concatenate(B), np.concatenate(V))


def pid_ref_vec(packed, box, ppd):
    p = np.asarray(packed).astype(np.uint64)
    f15 = np.uint64(0x7FFF)
    ix = p & f15
    iy = (p >> np.uint64(16)) & f15
    iz = (p >> np.uint64(32)) & f15
    tagged = ((p >> np.uint64(48)) & np.uint64(1)).astype(np.int64)
    d = ((p >> np.uint64(49)) & np.uint64(0x3FF)).astype(np.int64)
    pid = (ix | (iy << np.uint64(16)) | (iz << np.uint64(32))).astype(np.int64)
    idx = np.stack([ix, iy, iz], axis=-1).astype(np.int64).reshape(-1, 3)
    lpos = idx.astype(np.float64) * (float(box) / float(ppd)) - float(box) / 2.0
    return dict(pid=pid, lagr_idx=idx, lagr_pos=lpos, tagged=tagged, density=d * d)


def selfcheck():
    """The references of this file against the independent scalar references of vf/refs.py and against themselves."""
    from vf import refs
    # RVint tables vs refs.rvint_ref on boundary words and a fixed spread
    ws = [0, 1, 0xFFF, 0x1000, 0x7FFFFFFF, 0x80000000, 0x80000FFF, 0xFFFFFFFF, 0xFFFFF000, 0x7FFFF800, 0x00000800]
    ws += [w & 0xFFFFFFFF for w in _splitmix(4000, 7)]
    u = np.array(ws, dtype=np.uint32)
    for box in (1.0, 2000.0, 1185.0):
        pt, vt = rv_tables(box)
        rp, rv = refs.rvint_ref(u.view(np.int32), box)
        assert np.array_equal(pt[u >> np.uint32(12)], rp), 'rv_tables pos != refs.rvint_ref'
        assert np.array_equal(vt[u & np.uint32(0xFFF)], rv), 'rv_tables vel != refs.rvint_ref'
        assert np.array_equal(signed_hi(u) * (box / 1e6), rp)
        # the table is the documented formula literally, for a few hand-computed words
        assert pt[0x80000] == -524288 * (box / 1e6) and pt[0x7FFFF] == 524287 * (box / 1e6) and pt[0xFFFFF] == -(box / 1e6)
    assert vt[0] == -6000.0 and vt[2048] == 0.0 and vt[4095] == 2047 * 6000.0 / 2048.0
    # encoders invert the tables on every representable value
    assert np.array_equal(encode_vel(vt), np.arange(4096))
    f = np.arange(1 << 20, dtype=np.uint32) << np.uint32(12)
    for box in (1.0, 2000.0, 1185.0, 32.0):
        assert np.array_equal(encode_pos(rv_tables(box)[0], box), signed_hi(f))
    # sweeps cover what they claim
    for bg in range(8):
        w = words_pos_sweep(bg)
        for c in range(3):
            assert nuniq(w[:, c] >> np.uint32(12)) == 1 << 20
    seen = [set() for _ in range(3)]
    for bg in range(8):
        for c in range(3):
            seen[c].add(VEL_BG[(bg + c) % 8])
    assert all(len(s) == 8 for s in seen)
    w = words_vel_sweep()
    for c in range(3):
        assert nuniq(w[:, c]) == 64 * 4096
        assert nuniq(w[:, c] >> np.uint32(12)) == 64
    # PID: vectorised reference vs the scalar python-int reference, on field boundaries under every background
    P, F, B, V = pid_sweep()
    assert len(P) == 16 * (3 * (1 << 15) + 2 + (1 << 10))
    sel = np.zeros(len(P), dtype=bool)
    for fi, (_, sh, wd) in enumerate(FIELDS):
        top = (1 << wd) - 1
        sel |= (F == fi) & np.isin(V, [0, 1, 2, top // 2, top // 2 + 1, top - 1, top, 12345 & top, 0x5A5A & top])
    sub = P[sel]
    for box, ppd in ((1.0, 1), (2000.0, 6912), (32.0, 64)):
        a = pid_ref_vec(sub, box, ppd)
        b = refs.pid_ref(sub, box, ppd)
        for k in a:
            assert np.array_equal(a[k], b[k]), 'pid_ref_vec != refs.pid_ref for ' + k
    # make_packedpid round trip
    for (ix, iy, iz, t, d, junk) in ((1, 2, 3, 1, 4, 0), (0x7FFF, 0, 0x7FFF, 0, 0x3FF, M64), (0, 0x7FFF, 0, 1, 0, 1 << 63)):
        wv = refs.make_packedpid(ix, iy, iz, t, d, junk)
        r = pid_ref_vec(np.array([wv], dtype=np.uint64), 1.0, 1)
        assert r['lagr_idx'][0].tolist() == [ix, iy, iz] and r['tagged'][0] == t and r['density'][0] == d * d
        assert r['pid'][0] == ix | (iy << 16) | (iz << 32) == wv & ID_MASK

"""C06 reference model and alphabets, written from the property statement only.

kernel_ref: the continuous 1-D assignment window evaluated at the (periodically repeated) cell centres
    TSC  W(s) = 3/4 - s^2            |s| <= 1/2
              = (3/2 - |s|)^2 / 2    1/2 <= |s| <= 3/2        (support 1.5 cells)
    CIC  W(s) = 1 - |s|              |s| <= 1                 (support 1 cell)
with s = (particle coordinate + offset) / cell - cell index.  The 3-D deposit is weight * Wx * Wy * Wz.
Nothing is rounded to a "nearest cell": W is continuous, so no convention at half-cell edges is presumed.

Everything 1-D is evaluated in long double from the exact value of the float32/float64 inputs; the
tolerance is derived (not fitted):
  * the code may know the cell coordinate only to delta = 3 eps_pos (g + 2) cells (g + 1/2 = largest coordinate it
    handles, in cells; analysis: 0.75 eps g from pos+offset, 1/cell and their product, 0.5 eps g from the wrap), and |dW/ds| <= 1, so each 1-D weight may be off by delta per contributing image;
    3-D: prod(W_a + delta_a) - prod(W_a)  -> cells outside the support of any axis get tolerance ZERO,
  * plus R relative rounding of products / accumulation,
  * and NO tolerance at all when every quantity is exactly representable (coordinates multiples of 1/4 cell
    on a power-of-two cell size): there the deposit must equal the reference bit for bit.
"""
import numpy as np

LD = np.longdouble
F8 = np.float64


def w1d(s, kind):
    a = np.abs(s)
    if kind == 'tsc':
        return np.where(a <= LD(0.5), LD(0.75) - a * a, np.where(a < LD(1.5), LD(0.5) * (LD(1.5) - a) ** 2, LD(0)))
    return np.where(a < LD(1), LD(1) - a, LD(0))


def ucoord(pos_col, offset, g, box):
    """exact (long double) coordinate in cell units of an array of float positions"""
    return (pos_col.astype(LD) + LD(offset)) * LD(g) / LD(box)


def kernel_axis(u, g, kind, delta):
    """u (N,) long double, delta scalar -> K (N,g) float64 reference weights, Khi (N,g) upper envelope
    (K + delta per periodic image whose support reaches the cell within delta).
    g == 1 is the documented 2-D case: the images sum to weight 1."""
    n = len(u)
    i = np.arange(g, dtype=LD)
    supp = LD(1.5) if kind == 'tsc' else LD(1.0)
    K = np.zeros((n, g), dtype=LD)
    B = np.zeros((n, g), dtype=F8)
    for m in range(-4, 5):
        s = u[:, None] - i[None, :] - LD(m * g)
        K += w1d(s, kind)
        B += (np.abs(s) <= supp + LD(delta))
    Kf = K.astype(F8)
    return Kf, Kf + F8(delta) * B


def is_pow2(x):
    m, _ = np.frexp(float(x))
    return m == 0.5


class Ref:
    """reference deposit of N particles on one grid"""

    def __init__(self, kind, shape, box, offset, pos, weights, pdt, gdt, wrap, eps_pos=None, cdelta=3.0):
        self.shape = tuple(shape)
        n = len(pos)
        eps_p = float(np.finfo(pdt).eps) if eps_pos is None else eps_pos
        eps_g = float(np.finfo(gdt).eps)
        self.eps_g = eps_g
        self.R = 16 * eps_p + 16 * eps_g + 4 * float(np.finfo(F8).eps)
        self.W = np.ones(n, dtype=F8) if weights is None else np.asarray(weights, dtype=F8)
        self.K = []
        self.Kh = []
        self.u = []
        clean = np.ones(n, dtype=bool)
        boxl = LD(box)
        for a, g in enumerate(self.shape):
            u = ucoord(pos[:, a], offset, g, box)
            U = g + 2   # after the in-place wrap every coordinate the deposit handles is within [0, g + 1/2]
            delta = cdelta * eps_p * U
            K, Kh = kernel_axis(u, g, kind, delta)
            self.K.append(K)
            self.Kh.append(Kh)
            self.u.append(u)
            # exactly representable arithmetic?  cell size a power of two, coordinate a multiple of 1/4 cell,
            # sum pos+offset and the wrapped position representable in the position dtype
            p = pos[:, a].astype(LD)
            s = p + LD(offset)
            pw = np.where(p >= boxl, p - boxl, np.where(p < 0, p + boxl, p)) if wrap else p
            ok = is_pow2(g / box) and (F8(g) / F8(box)) * F8(box) == F8(g)
            c = (np.rint(u * 4) == u * 4) & (s.astype(pdt).astype(LD) == s) & (pw.astype(pdt).astype(LD) == pw)
            c &= ((pw + LD(offset)).astype(pdt).astype(LD) == pw + LD(offset))
            clean &= c & bool(ok)
        self.clean = clean
        self.floor = 64 * float(np.finfo(gdt).tiny)

    def cells(self, sel=None):
        """ref (n,*shape) float64, tol (n,*shape) float64 for the selected particles"""
        sl = slice(None) if sel is None else sel
        K0, K1, K2 = (k[sl] for k in self.K)
        H0, H1, H2 = (k[sl] for k in self.Kh)
        W = self.W[sl]
        ref = K0[:, :, None, None] * K1[:, None, :, None] * K2[:, None, None, :]
        hi = H0[:, :, None, None] * H1[:, None, :, None] * H2[:, None, None, :]
        aw = np.abs(W)[:, None, None, None]
        tol = ((hi - ref) + self.R * hi + self.floor * (hi > 0)) * aw
        tol[self.clean[sl]] = 0.0
        ref = ref * W[:, None, None, None]
        return ref, tol, hi * aw

    def total(self):
        """summed reference grid, summed tolerance, summed magnitude (for multi-particle deposits)"""
        ref = np.einsum('n,ni,nj,nk->ijk', self.W, *self.K)
        hi = np.einsum('n,ni,nj,nk->ijk', np.abs(self.W), *self.Kh)
        lo = np.einsum('n,ni,nj,nk->ijk', np.abs(self.W), *self.K)
        n = len(self.W)
        tol = (hi - lo) + (self.R + n * self.eps_g) * hi + self.floor * (hi > 0)
        return ref, tol, hi

    def nearest(self):
        """wrapped index of the cell whose centre is nearest (ties -> lower), per particle, as (N,3) ints"""
        out = []
        for u, g in zip(self.u, self.shape):
            out.append((np.ceil(u - LD(0.5)).astype(np.int64)) % g)
        return np.stack(out, axis=1)


# ---------------------------------------------------------------------------------------- alphabets
def overshoot_box(g, ft, lo=3, hi=4000):
    """smallest integer box size for which, in the position dtype, a particle at the value Box with a half-cell offset
    has a grid coordinate that ROUNDS ABOVE the half-cell edge g + 1/2 when it is formed as (pos + offset) * (g / box)
    (the product of two rounded factors; the exact value is g + 1/2).  Pure float arithmetic on the inputs - the box
    is an element of the alphabet chosen for its rounding behaviour, like the +-1 ulp neighbours."""
    for b in range(lo, hi):
        box = float(b)
        off = ft(box / g * 0.5)
        if (ft(box) + off) * ft(g / box) > g + 0.5:
            return box
    return None


def _nbrs(p, n, ft):
    up = p
    dn = p
    for _ in range(n):
        up = np.nextafter(up, ft(np.inf))
        dn = np.nextafter(dn, ft(-np.inf))
    return dn, up


def axis_alphabet(g, box, offset, ft, level, wrap, ulps=(1,), eps_rel=(1e-3,)):
    """positions (dtype ft, sorted, unique) along one axis of g cells.

    level 'full': every cell centre and half-cell edge k/2 (k = 0..2g), the same shifted by -offset (the edges as the
                  deposit sees them), each with neighbours +-n ulp and +-1e-3 cell; domain [0, box] (box included).
    level 'red' : 0, first edge (-1ulp, exact, +1ulp), 1.3, top edge, box-1ulp, box
    level 'mini': 0, first edge, 1.3, box
    negative offset: red/mini also get the lower-face edge -1/2 - offset (and a point below it)
    wrap: adds out-of-domain values (up to one box outside), to be brought back by the in-place wrap.
    """
    h = F8(box) / g
    offc = F8(offset) / h
    vals = []

    def add(u):
        vals.append(ft(F8(u) * h))

    if level == 'full':
        cent = [k / 2 for k in range(2 * g + 1)]
        # the centres/edges as the deposit sees them; k from -2 so that with a NEGATIVE offset the edge (pos+offset)/h = -1/2
        # and the centre -1 (just inside the lower face) are in the alphabet; out-of-domain values are dropped below
        cent += [k / 2 - offc for k in range(-2, 2 * g + 3) if offc != 0]
        for c in cent:
            p = ft(F8(c) * h)
            vals.append(p)
            for n in ulps:
                vals.extend(_nbrs(p, n, ft))
            for e in eps_rel:
                vals.append(ft(F8(c - e) * h))
                vals.append(ft(F8(c + e) * h))
        if wrap:
            tiny = np.nextafter(ft(0), ft(-1))
            vals += [tiny, ft(-1e-3 * h), ft(-0.5 * h), np.nextafter(ft(-box), ft(0)), ft(-box), ft(-box + 0.5 * h),
                     ft(box + 0.5 * h), ft(box + h), np.nextafter(ft(2 * box), ft(0)), ft(2 * box),
                     np.nextafter(ft(box), ft(np.inf))]
    else:
        e = 0.5 - offc if offc < 0.5 else 1.5 - offc
        pe = ft(F8(e) * h)
        top = ft(F8(g - 0.5 - offc) * h)
        pb = ft(box)
        if offc < 0:
            # lower face with a negative offset: (pos+offset)/h = -1/2 (edge below cell 0), with neighbours, and a point
            # strictly between the face and that edge (nearest cell is -1, i.e. the periodic image g-1)
            low = ft(F8(max(-0.5 - offc, 0.0)) * h)
            vals += [low, ft(F8(max(-0.625 - offc, 0.0)) * h)]
            if level == 'red':
                vals += list(_nbrs(low, 1, ft))
        if level == 'red':
            dn, up = _nbrs(pe, 1, ft)
            vals += [ft(0), dn, pe, up, ft(1.3 * h), top, np.nextafter(pb, ft(0)), pb]
            if wrap:
                vals += [np.nextafter(ft(0), ft(-1)), ft(-0.5 * h), ft(box + 0.5 * h), np.nextafter(ft(2 * box), ft(0)), ft(-box)]
        else:
            vals += [ft(0), pe, ft(1.3 * h), pb]
            if wrap:
                vals += [np.nextafter(ft(0), ft(-1)), np.nextafter(ft(2 * box), ft(0))]
    v = np.unique(np.array(vals, dtype=ft))
    lo, hi = (-box, 2 * box) if wrap else (0.0, box)
    v = v[(v.astype(F8) >= lo) & (v.astype(F8) <= hi)]
    return v


def product_positions(ax):
    """(N,3) array: cartesian product of three 1-D arrays"""
    a, b, c = np.meshgrid(*ax, indexing='ij')
    return np.stack([a.ravel(), b.ravel(), c.ravel()], axis=1)


def sweep_positions(shape, box, offset, ft, sweep, wrap, ul=1):
    """particle positions of a sweep.
      'cube'   full x full x full
      'axis0/1/2' full on that axis, 'red' on the other two ('axis0m': 'mini' on the other two)
      'red'    red x red x red ;  'mini' mini^3
    """
    ulps = (1,) if ul == 1 else (1, 4)
    full = [axis_alphabet(g, box, offset, ft, 'full', wrap, ulps) for g in shape]
    red = [axis_alphabet(g, box, offset, ft, 'red', wrap) for g in shape]
    mini = [axis_alphabet(g, box, offset, ft, 'mini', wrap) for g in shape]
    if sweep == 'cube':
        ax = full
    elif sweep.startswith('axis'):
        a = int(sweep[4])
        oth = mini if sweep.endswith('m') else red
        ax = [full[i] if i == a else oth[i] for i in range(3)]
    elif sweep == 'red':
        ax = red
    else:
        ax = mini
    return product_positions(ax)

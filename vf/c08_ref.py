"""modes_ref - reference binning of a half-complex Fourier mesh, written from the property statement.

The FULL n1d^3 mesh is enumerated with numpy.fft.fftfreq wavenumbers; every mode is mapped to the rfft
half-complex representative that stores its value (a conjugate pair is two modes sharing one stored value);
|k|, mu = |kz|/|k| (or k_perp, k_par) are computed in float64 and binned.  Modes whose squared quantity lies
within a few float32 ulp of a squared edge may legitimately fall on either side: the comparison of observed
mode counts is a *feasibility* problem (is there an assignment of the ambiguous classes that reproduces the
observed integer counts exactly?), never an alarm.  All modes sharing the same integers that enter a
comparison form one class (a correct kernel decides them identically).

Nothing here calls or imitates abacusnbody; the `variant=` arguments exist only to *label* an already
established violation (which hypothetical defect reproduces the observed wrong counts).
"""
import itertools
import numpy as np

EPS32 = float(np.finfo(np.float32).eps)
EPS64 = float(np.finfo(np.float64).eps)
ULP_K = 2.0     # ambiguity half-width, in float32 ulp of the squared edge, for |k|^2, k_perp^2, k_par^2 (integers vs rounded edge)
ULP_MU = 4.0    # same for mu^2 (quotient of integers rounded in float32 vs rounded edge)
MAXCOMBO = 1 << 12


def sp32(x):
    return float(np.spacing(np.float32(abs(x))))


def legendre(l, mu):
    c = np.zeros(l + 1)
    c[l] = 1.0
    return np.polynomial.legendre.legval(mu, c)


class Mesh:
    """all n^3 modes of the full mesh with integer fftfreq wavenumbers and their half-complex representative"""

    def __init__(self, n):
        self.n = n
        f = np.rint(np.fft.fftfreq(n) * n).astype(np.int64)        # 0, 1, ..., -2, -1 (index n/2 -> -n/2 for even n)
        a, b, c = np.meshgrid(np.arange(n), np.arange(n), np.arange(n), indexing='ij')
        a, b, c = a.ravel(), b.ravel(), c.ravel()
        self.fx, self.fy, self.fz = f[a], f[b], f[c]
        up = c > n // 2                                             # not stored: its conjugate (-a,-b,-c) is
        self.ri = np.where(up, (-a) % n, a)
        self.rj = np.where(up, (-b) % n, b)
        self.rk = np.where(up, (n - c) % n, c)
        assert (self.rk <= n // 2).all()
        # the representative carries the conjugate wavevector (or the same one)
        assert ((f[self.ri] ** 2 == self.fx ** 2) & (f[self.rj] ** 2 == self.fy ** 2) & (f[self.rk] ** 2 == self.fz ** 2)).all()

    def entries(self, variant=()):
        n = self.n
        fx2, fy2, fz2 = self.fx ** 2, self.fy ** 2, self.fz ** 2
        mult = np.ones(len(fx2), dtype=np.int64)
        if 'oddfold' in variant:      # hypothetical: index i folded as (i if i < n//2 else i-n) on the stored x and y index
            fv = np.where(np.arange(n) < n // 2, np.arange(n), np.arange(n) - n)
            fx2, fy2 = fv[self.ri] ** 2, fv[self.rj] ** 2
        if 'nyq2' in variant and n % 2 == 0:   # hypothetical: self-conjugate Nyquist plane counted as a pair
            mult = np.where(self.rk == n // 2, 2, 1).astype(np.int64)
        if 'kz0x2' in variant:        # hypothetical: kz=0 plane counted as a pair
            mult = np.where(self.rk == 0, 2 * mult, mult)
        return dict(fx2=fx2, fy2=fy2, fz2=fz2, mult=mult, ri=self.ri, rj=self.rj, rk=self.rk, n=n)


_MESH = {}


def mesh(n):
    if n not in _MESH:
        _MESH[n] = Mesh(n)
    return _MESH[n]


class Binning:
    """kind 'kmu': A = |k|^2 (integer), B = mu^2;  kind 'kppi': A = k_perp^2, B = k_par^2 (integers).
    eA/eB are the bin edges in physical units; unit = 2 pi / L (fourier) or L / n (configuration space)."""

    def __init__(self, n, unit, kind, eA, eB, values, variant=(), drop=None):
        self.n, self.kind, self.unit = n, kind, float(unit)
        ent = mesh(n).entries(variant)
        self.ent = ent
        eA = np.asarray(eA, dtype=np.float64)
        eB = np.asarray(eB, dtype=np.float64)
        assert (np.diff(eA) > 0).all() and (np.diff(eB) > 0).all() and len(eA) >= 2 and len(eB) >= 2
        self.eA2 = (eA / unit) ** 2
        self.NA = len(eA) - 1
        self.NB = len(eB) - 1
        mult = ent['mult']
        kz2 = ent['fz2']
        if kind == 'kmu':
            A2 = ent['fx2'] + ent['fy2'] + kz2
            self.eB2 = eB ** 2
            with np.errstate(invalid='ignore', divide='ignore'):
                B = np.where(A2 > 0, kz2 / np.maximum(A2, 1), 0.0)     # |k| = 0: mu := 0 (nbodykit convention, see ASSUMPTIONS)
            self.kmag = np.sqrt(A2.astype(np.float64)) * unit
            self.mu = np.sqrt(B)
        else:
            A2 = ent['fx2'] + ent['fy2']
            self.eB2 = (eB / unit) ** 2
            B = kz2.astype(np.float64)
            self.kmag = None
        self.A2, self.B = A2, B
        keep = np.ones(len(A2), dtype=bool)
        if drop is not None:
            keep &= ~drop[ent['ri'], ent['rj']]
        self.keep = keep
        self.val = np.asarray(values, dtype=np.float64)[ent['ri'], ent['rj'], ent['rk']]
        self.mult = mult
        # ---- A classification
        self.binA = np.searchsorted(self.eA2, A2, side='right') - 1          # -1 below range, NA at/after last edge
        clsA = np.full(len(A2), -1)
        for e in range(self.NA + 1):
            # an exact zero first edge cannot round, but a uniform (lo, hi] convention legitimately excludes the mode that sits
            # exactly on it: treated like every other on-edge shell (either side)
            near = np.abs(A2 - self.eA2[e]) <= ULP_K * sp32(self.eA2[e])
            assert (clsA[near] < 0).all(), 'edges closer than the ambiguity width'
            clsA[near] = e
        self.clsA = clsA
        self.Aclasses = [int(e) for e in np.unique(clsA[(clsA >= 0) & keep])]
        # ---- B classification -> list of (entry indices, low bin, high bin)
        self.Bclasses = []
        amb = np.zeros(len(A2), dtype=bool)
        if kind == 'kmu':
            self.binB = np.clip(np.searchsorted(self.eB2, B, side='right') - 1, 0, self.NB - 1)
            for m in range(1, self.NB):
                near = np.abs(B - self.eB2[m]) <= ULP_MU * sp32(self.eB2[m])
                assert not (near & amb).any()
                amb |= near
                idx = np.nonzero(near & keep)[0]
                keys = {}
                for t in idx:
                    keys.setdefault((int(kz2[t]), int(A2[t])), []).append(t)
                for kk in sorted(keys):
                    self.Bclasses.append((np.array(keys[kk]), m - 1, m, ('mu', m) + kk))
        else:
            self.binB = np.searchsorted(self.eB2, B, side='right') - 1
            for e in range(self.NB + 1):
                if self.eB2[e] == 0.0:
                    continue
                near = np.abs(B - self.eB2[e]) <= ULP_K * sp32(self.eB2[e])
                assert not (near & amb).any()
                amb |= near
                idx = np.nonzero(near & keep)[0]
                if len(idx):
                    self.Bclasses.append((idx, e - 1, e, ('pi', e)))
        self.n_ambiguous = int(((clsA >= 0) | amb).sum())
        if 2 ** len(self.Bclasses) > MAXCOMBO:
            raise RuntimeError('too many ambiguous mu/pi classes for this bound')
        self._memo = {}

    # ------------------------------------------------------------------
    def _leaf(self, bA, bB):
        ok = self.keep & (bA >= 0) & (bA < self.NA) & (bB >= 0) & (bB < self.NB)
        flat = bA[ok] * self.NB + bB[ok]
        m = self.mult[ok].astype(np.float64)
        v = self.val[ok]
        nbin = self.NA * self.NB
        shp = (self.NA, self.NB)
        leaf = dict(N=np.bincount(flat, self.mult[ok], nbin).astype(np.int64).reshape(shp),
                    S=np.bincount(flat, m * v, nbin).reshape(shp), Sa=np.bincount(flat, m * np.abs(v), nbin).reshape(shp))
        if self.kind == 'kmu':
            leaf['K'] = np.bincount(flat, m * self.kmag[ok], nbin).reshape(shp)
            mu = self.mu[ok]
            leaf['P'] = {}
            for l in (0, 1, 2, 3, 4, 6):
                t = m * (2 * l + 1) * legendre(l, mu) * v
                leaf['P'][l] = (np.bincount(bA[ok], t, self.NA), np.bincount(bA[ok], np.abs(t), self.NA))
            leaf['Va'] = np.bincount(bA[ok], m * np.abs(v), self.NA)
        return leaf

    def canonical(self):
        """the closed-below assignment [lo, hi) of every mode (ambiguous ones by their float64 value)"""
        if 'canon' not in self._memo:
            self._memo['canon'] = self._leaf(self.binA.copy(), self.binB.copy())
        return self._memo['canon']

    def solve(self, obs):
        """all assignments of the ambiguous classes whose mode counts equal `obs` exactly -> list of leaves"""
        obs = np.asarray(obs)
        key = obs.tobytes()
        if key in self._memo:
            return self._memo[key]
        leaves = []
        self.branches = 0
        NA, NB = self.NA, self.NB
        if obs.shape == (NA, NB):
            for combo in itertools.product((0, 1), repeat=len(self.Bclasses)):
                bB = self.binB.copy()
                for (idx, lo, hi, _), c in zip(self.Bclasses, combo):
                    bB[idx] = hi if c else lo
                okB = self.keep & (bB >= 0) & (bB < NB)
                d = okB & (self.clsA < 0) & (self.binA >= 0) & (self.binA < NA)
                D = np.bincount(self.binA[d] * NB + bB[d], self.mult[d], NA * NB).astype(np.int64).reshape(NA, NB)
                r = {}
                for e in self.Aclasses:
                    s = okB & (self.clsA == e)
                    r[e] = np.bincount(bB[s], self.mult[s], NB).astype(np.int64)
                zero = np.zeros(NB, dtype=np.int64)
                partial = [()]
                for e in range(NA + 1):
                    opts = (0, 1) if e in r else (None,)
                    new = []
                    for p in partial:
                        for c in opts:
                            self.branches += 1
                            q = p + (c,)
                            if e >= 1:
                                row = D[e - 1] + (r.get(e - 1, zero) if q[e - 1] == 1 else 0) + (r.get(e, zero) if c == 0 else 0)
                                if not np.array_equal(row, obs[e - 1]):
                                    continue
                            new.append(q)
                    partial = new
                    if not partial:
                        break
                for q in partial:
                    bA = self.binA.copy()
                    for e in self.Aclasses:
                        bA[self.clsA == e] = e - 1 + q[e]
                    lf = self._leaf(bA, bB)
                    assert np.array_equal(lf['N'], obs)
                    lf['choice'] = dict(A={e: q[e] for e in self.Aclasses}, B={str(cl[3]): c for cl, c in zip(self.Bclasses, combo)})
                    leaves.append(lf)
        self._memo[key] = leaves
        return leaves


def jbreak_drop(n, thr2, variant=()):
    """hypothetical defect model (labelling only): for each stored x index the stored y indices are scanned upwards and the
    scan stops at the first one whose k_perp^2 >= thr2; everything after it is lost"""
    idx = np.arange(n)
    if 'oddfold' in variant:
        f = np.where(idx < n // 2, idx, idx - n)
    else:
        f = np.rint(np.fft.fftfreq(n) * n).astype(np.int64)
    T = f[:, None] ** 2 + f[None, :] ** 2
    brk = T >= thr2
    first = np.where(brk.any(axis=1), brk.argmax(axis=1), n)
    return idx[None, :] >= first[:, None]

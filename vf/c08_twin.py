"""Interpreted twin of a numba parallel kernel: the kernel's own py_func code object is executed by CPython with a
substituted globals dict (the real `numba` module is never touched):

  numba.prange          -> iteration in a chosen order, each iteration owned by a *virtual* thread id
  numba.get_thread_id   -> the virtual owner of the current iteration
  numba.set/get_num_threads -> virtual
  np.zeros              -> arrays whose first axis has one row per thread are tracked: inside the parallel loop a row
                           may only be touched by its owner (private accumulators => iterations of different threads
                           are independent, any interleaving gives the same integers)

numpy indexing raises IndexError for every read/write past the end of an array (compiled code would read garbage).
"""
import types
import numpy as np

SCHEDULES = ('chunks', 'roundrobin', 'onethread', 'revchunks')


class State:
    def __init__(self):
        self.nthread = 1
        self.sched = 'chunks'
        self.cur = None
        self.tid = 0
        self.races = []
        self.touched = 0


class Tracked(np.ndarray):
    _st = None
    _private = False

    def __array_finalize__(self, obj):
        self._st = None
        self._private = False

    def _chk(self, key, what):
        st = self._st
        if st is not None and self._private and st.cur is not None:
            st.touched += 1
            row = key[0] if isinstance(key, tuple) else key
            if not (isinstance(row, (int, np.integer)) and int(row) == st.tid):
                if len(st.races) < 5:
                    st.races.append(f'iteration {st.cur} owned by thread {st.tid} {what} accumulator row {row!r}')

    def __getitem__(self, key):
        self._chk(key, 'read')
        return super().__getitem__(key)

    def __setitem__(self, key, val):
        self._chk(key, 'wrote')
        super().__setitem__(key, val)


class FakeNumba:
    def __init__(self, st, real):
        self._st = st
        self.config = real.config

    def set_num_threads(self, n):
        if not 1 <= int(n) <= 16:
            raise ValueError('The number of threads must be between 1 and 16')
        self._st.nthread = int(n)

    def get_num_threads(self):
        return self._st.nthread

    def get_thread_id(self):
        return self._st.tid

    def prange(self, *a):
        st = self._st
        its = list(range(*a))
        n, T = len(its), st.nthread
        chunk = -(-n // T) if n else 1
        if st.sched == 'chunks':
            order, owner = its, {i: p // chunk for p, i in enumerate(its)}
        elif st.sched == 'roundrobin':
            order, owner = its, {i: p % T for p, i in enumerate(its)}
        elif st.sched == 'onethread':
            order, owner = its, {i: T - 1 for i in its}
        else:  # the last thread's chunk runs first, and each chunk backwards
            order, owner = its[::-1], {i: p // chunk for p, i in enumerate(its)}
        try:
            for i in order:
                st.cur, st.tid = i, owner[i]
                yield i
        finally:
            st.cur = None


class NPProxy:
    def __init__(self, st):
        self._st = st

    def __getattr__(self, name):
        return getattr(np, name)

    def zeros(self, shape, dtype=float):
        a = np.zeros(shape, dtype=dtype)
        if isinstance(shape, tuple) and len(shape) >= 2 and shape[0] == self._st.nthread:
            a = a.view(Tracked)
            a._st = self._st
            a._private = True
        return a


def make_twin(dispatcher):
    """returns (callable, state); callable(*args, sched=..., **kw) runs the kernel body interpreted"""
    import numba as real
    py = dispatcher.py_func
    st = State()
    g = dict(py.__globals__)
    g['numba'] = FakeNumba(st, real)
    g['np'] = NPProxy(st)
    f = types.FunctionType(py.__code__, g, py.__name__, py.__defaults__, py.__closure__)
    f.__kwdefaults__ = py.__kwdefaults__

    def call(*a, sched='chunks', **kw):
        st.sched, st.cur, st.races, st.touched = sched, None, [], 0
        return f(*a, **kw)
    return call, st


def oob_site(exc):
    """source text of the innermost kernel line of an IndexError raised in the twin -> (array name, line)"""
    import linecache
    import re
    import traceback
    tb = traceback.extract_tb(exc.__traceback__)
    for fr in reversed(tb):
        if fr.filename.endswith('power_spectrum.py'):
            line = (fr.line or linecache.getline(fr.filename, fr.lineno)).strip()
            m = re.search(r'(\w+)\[', line)
            return (m.group(1) if m else 'unknown'), f'{fr.filename.split("/")[-1]}:{fr.lineno}: {line}'
    return 'unknown', str(exc)

"""Interpreted twins of the binning kernels for C08, built on the generic engine vf/twin.py.

The kernel's own source is executed by CPython with `numba` virtualised (prange iterations are mapped to virtual threads
under a chosen assignment, get_thread_id / set_num_threads / get_num_threads are virtual, everything else is delegated to
the real module) and arrays allocated in the sequential part tracked element by element.  Conflict rule (Bernstein, per
virtual thread): two prange iterations that run on DIFFERENT virtual threads touch the same array element and at least one
of them writes it.  Reads alone never conflict; iterations of the same thread may share anything.  Nothing is assumed about
how the kernel lays out its accumulators.

numpy indexing raises IndexError for every access past the end of an array (compiled code would read garbage).
Works for dispatchers and for plain Python wrappers around a jitted kernel (nested kernels become twins lazily).
"""
import inspect
import re
import textwrap
import traceback

SCHEDULES = ('chunks', 'roundrobin', 'onethread', 'revchunks')
_ASSIGN = {'chunks': 'chunk', 'roundrobin': 'rr', 'onethread': 'one', 'revchunks': 'rev'}


class _ScalarFast:
    """A nested jitted helper called with scalar arguments only (P_n(mu2, pole), n_choose_k, ...) cannot touch any array of
    the caller, so the compiled helper itself is called (same results, much faster); as soon as an array is passed the call is
    interpreted as a twin like everything else."""

    def __init__(self, tw, disp):
        self._tw, self._disp = tw, disp

    def __call__(self, *a, **k):
        import numpy as np
        if any(isinstance(x, (np.ndarray, list, tuple, dict)) for x in a) or any(isinstance(x, (np.ndarray, list, tuple, dict)) for x in k.values()):
            return self._tw.twin(self._disp)(*a, **k)
        return self._disp(*a, **k)

    def __getattr__(self, k):
        return getattr(self._disp, k)


def _twins_class():
    from vf import twin

    class Twins(twin.Twins):
        def subst(self, val):
            pf = self.pyfunc(val)
            if pf is not None and callable(val):
                try:
                    plain = 'prange' not in inspect.getsource(pf)
                except (OSError, TypeError):
                    plain = False
                if plain:
                    return _ScalarFast(self, val)
            return super().subst(val)
    return Twins


class Twin:
    def __init__(self, module, name):
        from vf import twin
        self.module, self.name = module, name
        self.rt = twin.Runtime()
        self.tw = _twins_class()(self.rt)
        self.f = self.tw.twin(getattr(module, name))
        self.conflicts = []
        self.naccess = 0

    def __call__(self, *a, nthread=1, sched='chunks', **kw):
        order = (lambda n: list(range(n))[::-1]) if sched == 'revchunks' else None
        self.rt.reset(nthreads=nthread, max_threads=64, assign=_ASSIGN[sched], by_thread=True, order=order)
        self.conflicts = []
        try:
            return self.f(*a, nthread=nthread, **kw)
        finally:
            self.naccess = self.rt.naccess
            self.conflicts = [c for reg in self.rt.regions for c in reg.conflicts]

    def describe_conflicts(self):
        return '; '.join(f'{kind} on element {el} of array allocated at {label} by virtual threads {ths}' for label, kind, el, ths in self.conflicts[:4])

    def oob_site(self, exc):
        """(array name, 'file:line: source text') of the innermost kernel line of an IndexError raised in the twin"""
        frames = [fr for fr in traceback.extract_tb(exc.__traceback__) if fr.filename.endswith(':twin')]
        if not frames:
            return 'unknown', str(exc)
        inner = frames[-1]
        fname = next((fr.name for fr in reversed(frames) if not fr.name.startswith('__body')), None)
        try:
            obj = getattr(self.module, fname)
            pf = self.tw.pyfunc(obj) or obj
            line = textwrap.dedent(inspect.getsource(pf)).splitlines()[inner.lineno - 1].strip()
            where = f'{inner.filename[:-5].split("/")[-1]}:{pf.__code__.co_firstlineno + inner.lineno - 1}: {line}'
        except Exception:
            return 'unknown', f'{inner.filename}:{inner.lineno}: {exc}'
        m = re.search(r'(\w+)\[', line)
        return (m.group(1) if m else 'unknown'), where

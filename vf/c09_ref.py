"""hod_ref - plain-numpy reference for property C09 and the factorial host/particle table.

Written from the property statement and docs/hod.rst:
  * slices of [0,1] stacked LRG -> ELG -> QSO; width = mean occupation(host mass, secondary-modified
    parameters) x ic x multiplicity (centrals) or x ic x particle weight x rank decorator (satellites);
  * log10 M_cut' = log10 M_cut + A_c*deltac + B_c*fenv (+ C_c*shear, ELG), log10 M_1' likewise with A_s,B_s,C_s;
  * ELG conformity: a satellite whose host has an LRG (ELG) central uses logM1_EL/alpha_EL (logM1_EE/alpha_EE),
    and in those branches M_1 carries no shear term;
  * central v = v_halo + alpha_c * veldev ; satellite v = v_halo + alpha_s * (v_particle - v_halo);
  * RSD: box observer z += v_z/velz2kms wrapped into [-L/2, L/2); light cone: pos += (v.n/velz2kms) n, n radial.
The package is used ONLY for the mean-occupation functions (the property defines the widths that way).
"""
import itertools
import numpy as np

TR = ('LRG', 'ELG', 'QSO')
SUBSETS = [s for n in (1, 2, 3) for s in itertools.combinations(range(3), n)]   # 7 non-empty subsets, stack order

MASSES = [1e11, 10 ** 12.5, 1e13, 1e14, 1e15]
MULTIS = [1.0, 0.3, 0.0]
WEIGHTS = [1.0, 0.3, 0.01, 0.0]
SEC = [(0.0, 0.0, 0.0), (-0.5, 0.5, 0.0), (0.5, 0.0, -0.5), (0.0, -0.5, 0.5)]    # (deltac, fenv, shear)
PRANKS = [(0.0, 0.0, 0.0, 0.0), (1.0, -1.0, 0.0, 1.0), (-1.0, 1.0, 1.0, -1.0)]  # (ranks, ranksv, ranksp, ranksr)
EDGE = 1e-9
RTOL_EDGE = 1e-12


# ----------------------------------------------------------------------------------------------- parameters
def base_tracers():
    z = dict(alpha_c=0.0, alpha_s=1.0, s=0.0, s_v=0.0, s_p=0.0, s_r=0.0)
    L = dict(logM_cut=13.0, logM1=14.0, sigma=0.5, alpha=1.0, kappa=0.5, **z)
    E = dict(p_max=0.5, Q=100.0, logM_cut=12.0, kappa=1.0, sigma=0.6, logM1=13.5, alpha=0.9, gamma=2.0, A_s=1.0, **z)
    Q = dict(logM_cut=12.5, kappa=1.0, sigma=0.5, logM1=14.5, alpha=0.8, **z)
    return dict(LRG=L, ELG=E, QSO=Q)


def base2_tracers():
    t = base_tracers()
    t['LRG'].update(logM_cut=12.6, logM1=13.7, sigma=0.25, alpha=1.3, kappa=1.5)
    t['ELG'].update(p_max=0.9, Q=20.0, logM_cut=11.6, kappa=0.3, sigma=0.3, logM1=14.2, alpha=0.6, gamma=5.0, A_s=0.4)
    t['QSO'].update(logM_cut=12.2, kappa=0.2, sigma=0.8, logM1=15.0, alpha=1.1)
    return t


def _ab(t):
    t['LRG'].update(Acent=0.3, Asat=-0.2, Bcent=-0.15, Bsat=0.25)
    t['ELG'].update(Acent=-0.25, Asat=0.35, Bcent=0.2, Bsat=-0.3, Ccent=0.4, Csat=-0.45)
    t['QSO'].update(Acent=0.1, Asat=0.15, Bcent=-0.35, Bsat=-0.1)


def _conf(t):
    t['ELG'].update(logM1_EE=12.9, alpha_EE=0.7, logM1_EL=14.1, alpha_EL=1.2)


def _ranks(t):
    t['LRG'].update(s=0.4, s_v=0.2, s_p=-0.2, s_r=0.1)
    t['ELG'].update(s=-0.3, s_v=0.25, s_p=0.15, s_r=-0.2)
    t['QSO'].update(s=0.1, s_v=-0.4, s_p=0.3, s_r=0.15)


def _vb(t, ac=(0.7, 0.4, 1.3), as_=(0.8, 1.2, 0.5)):
    for k, a, b in zip(TR, ac, as_):
        t[k].update(alpha_c=a, alpha_s=b)


def pset(name):
    """-> dict(tracers=..., ics=[...], enable_ranks=bool)"""
    t = base2_tracers() if name.startswith('b2') else base_tracers()
    ics = [None]
    ranks = False
    for part in name.split('+'):
        if part in ('base', 'b2'):
            pass
        elif part == 'ic':
            ics = [0.2, 0.5, 1.0]
        elif part == 'icmix':          # a different incompleteness per tracer
            for k, v in zip(TR, (0.5, 0.8, 0.35)):
                t[k]['ic'] = v
        elif part == 'ab':
            _ab(t)
        elif part == 'conf':
            _conf(t)
        elif part == 'ranks':
            _ranks(t)
            ranks = True
        elif part == 'vb':
            _vb(t)
        elif part == 'vb2':
            _vb(t, (0.7, 0.7, 0.7), (0.8, 0.8, 0.8))
        else:
            raise ValueError(part)
    return dict(tracers=t, ics=ics, enable_ranks=ranks)


def tracers_for(ps, subset, ic, reverse=False):
    out = {}
    for k in (reversed(subset) if reverse else subset):
        d = dict(ps['tracers'][TR[k]])
        if ic is not None:
            d['ic'] = ic
        out[TR[k]] = d
    return out


# ----------------------------------------------------------------------------------------------- widths
_F = None


def occ():
    global _F
    if _F is None:
        from abacusnbody.hod import GRAND_HOD as G
        _F = G
    return _F


_SIG = {}


def _binding(fname, have):
    """ordered parameter names of the package helper `fname` that will be passed positionally.  Arguments are bound by
    parameter NAME (inspect.signature of the py_func), so that a re-parameterised helper is still called correctly;
    a helper that is gone or asks for a quantity this reference does not know makes the driver stale, not the property false."""
    import inspect
    from vf import core
    key = (fname, tuple(sorted(have)))
    if key in _SIG:
        return _SIG[key]
    G = occ()
    fn = getattr(G, fname, None)
    if fn is None:
        raise core.Stale(f'c09_ref: occupation helper GRAND_HOD.{fname} no longer exists')
    try:
        pars = list(inspect.signature(getattr(fn, 'py_func', fn)).parameters.values())
    except (TypeError, ValueError) as e:
        raise core.Stale(f'c09_ref: cannot inspect GRAND_HOD.{fname}: {e}')
    last = max((i for i, p in enumerate(pars) if p.name in have), default=-1)
    spec = []
    for i, p in enumerate(pars):
        if p.kind not in (p.POSITIONAL_ONLY, p.POSITIONAL_OR_KEYWORD):
            raise core.Stale(f'c09_ref: GRAND_HOD.{fname} has a parameter kind the driver cannot bind: {p}')
        if p.name in have:
            if i <= last:
                spec.append(('name', p.name))
        elif p.default is not p.empty:
            if i < last:
                spec.append(('const', float(p.default)))
        else:
            raise core.Stale(f'c09_ref: GRAND_HOD.{fname} asks for parameter {p.name!r}; the reference only knows {sorted(have)}')
    _SIG[key] = (fn, spec)
    return _SIG[key]


def _evalu(fname, vals, grp=None):
    """evaluate the scalar package function on the distinct argument tuples only; `vals` maps parameter names to values
    (a superset of what the helper may ask for).  grp = (inverse, representatives): all arguments are constant within a
    group (fast path)."""
    from vf import core
    fn, spec = _binding(fname, vals.keys())
    cols = [vals[v] if k == 'name' else v for k, v in spec]

    def call(args):
        try:
            return float(fn(*args))
        except TypeError as e:      # wrong number / kind of arguments: the driver does not fit the helper any more
            raise core.Stale(f'c09_ref: GRAND_HOD.{fname} cannot be called with {[v for _, v in spec]}: {e}')
    if grp is not None:
        inv, rep = grp
        cc = [np.asarray(c, dtype=np.float64) for c in cols]
        vals_ = np.array([call([float(c[i]) if c.ndim else float(c) for c in cc]) for i in rep], dtype=np.float64)
        return vals_[inv]
    cols = np.broadcast_arrays(*[np.asarray(c, dtype=np.float64) for c in cols])
    A = np.stack(cols, axis=1)
    U, inv = np.unique(A, axis=0, return_inverse=True)
    out = np.array([call([float(x) for x in row]) for row in U], dtype=np.float64)
    return out[np.asarray(inv).ravel()]


def _g(d, k, default=0.0):
    return float(d.get(k, default))


def cen_widths(tr, mass, multi, dc, fe, sh, grp=None):
    """N x 3 central slice widths (0 for absent tracers)"""
    W = np.zeros((len(mass), 3))
    if 'LRG' in tr:
        d = tr['LRG']
        lmc = d['logM_cut'] + _g(d, 'Acent') * dc + _g(d, 'Bcent') * fe
        W[:, 0] = _evalu('n_cen_LRG', dict(M_h=mass, logM_cut=lmc, M_cut=10.0 ** lmc, sigma=d['sigma']), grp=grp) * _g(d, 'ic', 1.0) * multi
    if 'ELG' in tr:
        d = tr['ELG']
        lmc = d['logM_cut'] + _g(d, 'Acent') * dc + _g(d, 'Bcent') * fe + _g(d, 'Ccent') * sh
        W[:, 1] = _evalu('N_cen_ELG_v1', dict(M_h=mass, p_max=d['p_max'], Q=d['Q'], logM_cut=lmc, M_cut=10.0 ** lmc, sigma=d['sigma'], gamma=d['gamma']), grp=grp) * _g(d, 'ic', 1.0) * multi
    if 'QSO' in tr:
        d = tr['QSO']
        lmc = d['logM_cut'] + _g(d, 'Acent') * dc + _g(d, 'Bcent') * fe
        W[:, 2] = _evalu('N_cen_QSO', dict(M_h=mass, logM_cut=lmc, M_cut=10.0 ** lmc, sigma=d['sigma']), grp=grp) * _g(d, 'ic', 1.0) * multi
    return W


def _deco(d, enable_ranks, rk):
    if not enable_ranks:
        return 1.0
    return 1.0 + d['s'] * rk[:, 0] + d['s_v'] * rk[:, 1] + d['s_p'] * rk[:, 2] + d['s_r'] * rk[:, 3]


def sat_widths(tr, enable_ranks, mass, weight, dc, fe, sh, rk, kc, grp=None):
    """N x 3 satellite slice widths; kc = 1/2 when the host halo carries an LRG/ELG central, else 0"""
    W = np.zeros((len(mass), 3))
    if 'LRG' in tr:
        d = tr['LRG']
        lmc = d['logM_cut'] + _g(d, 'Acent') * dc + _g(d, 'Bcent') * fe
        m1 = 10.0 ** (d['logM1'] + _g(d, 'Asat') * dc + _g(d, 'Bsat') * fe)
        n = _evalu('n_sat_LRG_modified', dict(M_h=mass, logM_cut=lmc, M_cut=10.0 ** lmc, M_1=m1, logM_1=np.log10(m1), logM1=np.log10(m1), sigma=d['sigma'], alpha=d['alpha'], kappa=d['kappa']), grp=grp)
        W[:, 0] = n * weight * _g(d, 'ic', 1.0) * _deco(d, enable_ranks, rk)
    if 'ELG' in tr:
        d = tr['ELG']
        lmc = d['logM_cut'] + _g(d, 'Acent') * dc + _g(d, 'Bcent') * fe + _g(d, 'Ccent') * sh
        ab = _g(d, 'Asat') * dc + _g(d, 'Bsat') * fe
        lm1 = np.where(kc == 1, _g(d, 'logM1_EL', d['logM1']) + ab,
                       np.where(kc == 2, _g(d, 'logM1_EE', d['logM1']) + ab, d['logM1'] + ab + _g(d, 'Csat') * sh))
        al = np.where(kc == 1, _g(d, 'alpha_EL', d['alpha']), np.where(kc == 2, _g(d, 'alpha_EE', d['alpha']), d['alpha']))
        n = _evalu('N_sat_elg', dict(M_h=mass, M_cut=10.0 ** lmc, logM_cut=lmc, kappa=d['kappa'], M_1=10.0 ** lm1, logM_1=lm1, logM1=lm1, alpha=al, A_s=d['A_s']), grp=grp)
        W[:, 1] = n * weight * _g(d, 'ic', 1.0) * _deco(d, enable_ranks, rk)
    if 'QSO' in tr:
        d = tr['QSO']
        lmc = d['logM_cut'] + _g(d, 'Acent') * dc + _g(d, 'Bcent') * fe
        m1 = 10.0 ** (d['logM1'] + _g(d, 'Asat') * dc + _g(d, 'Bsat') * fe)
        n = _evalu('N_sat_generic', dict(M_h=mass, M_cut=10.0 ** lmc, logM_cut=lmc, kappa=d['kappa'], M_1=m1, logM_1=np.log10(m1), logM1=np.log10(m1), alpha=d['alpha']), grp=grp)
        W[:, 2] = n * weight * _g(d, 'ic', 1.0) * _deco(d, enable_ranks, rk)
    return W


# ----------------------------------------------------------------------------------------------- threshold rule
def allowed(r, W, enabled):
    """N x 4 boolean: column 0 = no galaxy, 1..3 = LRG/ELG/QSO.  A host carries tracer k iff lo_k < r <= hi_k
    (first slice closed at 0); either neighbour is accepted when r is within 1e-12 (relative) of an edge."""
    hi = np.cumsum(W, axis=1)
    lo = np.concatenate([np.zeros((len(r), 1)), hi[:, :2]], axis=1)
    tl = RTOL_EDGE * np.abs(lo) + 1e-300
    th = RTOL_EDGE * np.abs(hi) + 1e-300
    rr = r[:, None]
    A = np.zeros((len(r), 4), dtype=bool)
    inside = (rr >= lo - tl) & (rr <= hi + th)     # a zero-width slice can only be hit at its edge
    for k in range(3):
        if enabled[k]:
            A[:, k + 1] = inside[:, k]
    A[:, 0] = r >= hi[:, 2] - th[:, 2]
    # stored random exactly 0 in front of a disabled leading tracer: "no galaxy" is a tolerated convention
    if not enabled[0]:
        A[:, 0] |= (r == 0)
    return A


def decide(A):
    """single outcome where determined, else -1"""
    n = A.sum(axis=1)
    out = np.where(n == 1, A.argmax(axis=1), -1)
    return out


# ----------------------------------------------------------------------------------------------- table
def _slot_values(Wlist):
    """Wlist: list over configs of (N x 3 widths, subset) -> N x nslots stored-random alphabet"""
    N = len(Wlist[0][0])
    cols = [np.zeros(N), np.full(N, 1e-12), np.full(N, 0.999), np.ones(N)]
    for W, sub in Wlist:
        hi = np.cumsum(W, axis=1)
        lo = np.concatenate([np.zeros((N, 1)), hi[:, :2]], axis=1)
        for k in sub:
            cols += [hi[:, k] - EDGE, hi[:, k], hi[:, k] + EDGE, 0.5 * (lo[:, k] + hi[:, k])]
    V = np.stack(cols, axis=1)
    return np.clip(V, 0.0, 1.0)


def _perm(n, a):
    import math
    while math.gcd(a, n) != 1:
        a += 1
    return (np.arange(n, dtype=np.int64) * a + n // 3) % n


class Table:
    pass


def build_table(ps, geom):
    """factorial table for one parameter set; the stored randoms are placed relative to the reference markers of
    every (subset, ic) configuration that will be run on it."""
    L, velz, origin = geom['L'], geom['velz2kms'], geom.get('origin')
    configs = [(sub, ic) for ic in ps['ics'] for sub in SUBSETS]
    nslots = 4 + 4 * sum(len(s) for s, _ in configs)
    full = next(i for i, (s, ic) in enumerate(configs) if len(s) == 3 and ic in (None, 1.0))

    # ---- halos: central-test groups x slots, then carriers (mass x sec x wanted central outcome) x slots
    rows = []
    for (m, mu, sec) in itertools.product(MASSES, MULTIS, range(len(SEC))):
        for s in range(nslots):
            rows.append((m, mu, sec, s, -1))
    ncen = len(rows)
    for (m, sec, want) in itertools.product(MASSES, range(len(SEC)), range(4)):
        for s in range(nslots):
            rows.append((m, 1.0, sec, s, want))
    rows = np.array(rows, dtype=np.float64)
    H = len(rows)
    p = _perm(H, 7919)
    rows = rows[p]
    T = Table()
    T.H = H
    T.hmass = rows[:, 0].copy()
    T.hmultis = rows[:, 1].copy()
    seci = rows[:, 2].astype(int)
    sec = np.array(SEC)[seci]
    T.hdeltac, T.hfenv, T.hshear = sec[:, 0].copy(), sec[:, 1].copy(), sec[:, 2].copy()
    hslot = rows[:, 3].astype(int)
    want = rows[:, 4].astype(int)
    T.hid = (10 ** 15 + 13 * np.arange(H)).astype(np.int64)
    _, rep, inv = np.unique(np.searchsorted(MASSES, T.hmass) * 10 + seci, return_index=True, return_inverse=True)
    T.hgrp = (inv, rep)
    Wl = [(cen_widths(tracers_for(ps, sub, ic), T.hmass, T.hmultis, T.hdeltac, T.hfenv, T.hshear, grp=T.hgrp), sub) for sub, ic in configs]
    V = _slot_values(Wl)
    r = V[np.arange(H), hslot]
    # carriers: stored random in the middle of the wanted central slice of the full stack (or 1.0 for none)
    Wf = Wl[full][0]
    hi = np.cumsum(Wf, axis=1)
    lo = np.concatenate([np.zeros((H, 1)), hi[:, :2]], axis=1)
    for w in (1, 2, 3):
        sel = want == w
        r[sel] = np.clip(0.5 * (lo[sel, w - 1] + hi[sel, w - 1]), 0, 1)
    r[want == 0] = 1.0
    T.hrandoms = r
    i = np.arange(H)
    zs = np.array([-L / 2, -L / 2 + 1e-9, -0.3 * L, 0.0, 0.3 * L, L / 2 - 1e-9, np.nextafter(L / 2, 0), 0.11 * L, -0.49 * L, 0.49 * L])
    vs = np.array([0.0, 300.0, -300.0, 1500.0, -1500.0, 0.45 * L * velz, -0.45 * L * velz, 0.02 * L * velz, -0.02 * L * velz])
    T.hpos = np.stack([L * ((i * 0.6180339887498949) % 1.0) - L / 2, L * ((i * 0.7548776662466927 + 0.1) % 1.0) - L / 2, zs[i % len(zs)]], axis=1)
    T.hvel = np.stack([vs[(i // 3) % len(vs)], vs[(i // 5 + 2) % len(vs)], vs[(i // len(zs) + i) % len(vs)]], axis=1)
    # a few hosts land exactly on +L/2 / -L/2 after the shift (alpha_c = 0 case)
    ex = (i % 17 == 0)
    T.hvel[ex, 2] = (np.where(T.hpos[ex, 2] >= 0, L / 2, -L / 2) - T.hpos[ex, 2]) * velz   # shift magnitude <= L/2
    big = np.abs(T.hvel[:, 2] / velz) >= 0.5 * L - 1e-6
    big &= ~ex
    T.hvel[big, 2] *= 0.5
    T.hveldev = np.stack([97.0 * np.cos(i * 1.3), 113.0 * np.sin(i * 0.7 + 0.3), 89.0 * np.cos(i * 2.1 + 1.0)], axis=1)

    # ---- particles: every carrier gets WEIGHTS x PRANKS particles, all at the carrier's slot
    car = np.flatnonzero(want >= 0)
    K = len(WEIGHTS) * len(PRANKS)
    pin = np.repeat(car, K)
    P = len(pin)
    inner = np.tile(np.arange(K), len(car))
    T.P, T.K = P, K
    T.pinds = pin.astype(np.int64)
    T.pweights = np.array(WEIGHTS)[inner // len(PRANKS)]
    T.prk = np.array(PRANKS)[inner % len(PRANKS)]
    T.phmass, T.phid = T.hmass[pin].copy(), T.hid[pin].copy()
    T.pdeltac, T.pfenv, T.pshear = T.hdeltac[pin].copy(), T.hfenv[pin].copy(), T.hshear[pin].copy()
    T.phvel = T.hvel[pin].copy()
    _, rep, inv = np.unique(T.hgrp[0][pin], return_index=True, return_inverse=True)
    T.pgrp = (inv, rep)
    T.pstart = np.full(H, 0, dtype=np.int64)
    T.pcount = np.zeros(H, dtype=np.int64)
    T.pstart[car] = np.arange(len(car)) * K
    T.pcount[car] = K
    Wp = []
    for (sub, ic), (Wc, _) in zip(configs, Wl):
        en = [k in sub for k in range(3)]
        out = decide(allowed(T.hrandoms, Wc, en))
        kc = np.where(out == 1, 1, np.where(out == 2, 2, 0))[pin]
        trc = tracers_for(ps, sub, ic)
        Wk = [sat_widths(trc, ps['enable_ranks'], T.phmass, T.pweights, T.pdeltac, T.pfenv, T.pshear, T.prk, v, grp=T.pgrp) for v in (0, 1, 2)]
        Wp.append((np.where((kc == 1)[:, None], Wk[1], np.where((kc == 2)[:, None], Wk[2], Wk[0])), sub))
    Vp = _slot_values(Wp)
    T.prandoms = Vp[np.arange(P), hslot[pin]]
    j = np.arange(P)
    T.ppos = np.stack([L * ((j * 0.5698402909980532 + 0.37) % 1.0) - L / 2, L * ((j * 0.3247179572447460 + 0.71) % 1.0) - L / 2, zs[(j + j // 12) % len(zs)]], axis=1)
    T.pvel = np.stack([vs[(j // 2 + 1) % len(vs)] + 11.0, vs[(j // 7 + 4) % len(vs)] - 23.0, vs[(j // 4 + j) % len(vs)]], axis=1)
    exs = (j % 19 == 0)
    T.pvel[exs, 2] = (np.where(T.ppos[exs, 2] >= 0, L / 2, -L / 2) - T.ppos[exs, 2]) * velz
    # keep the expected line-of-sight shift of every tracer's satellite below L/2 (no double wrap needed)
    amax = max(abs(ps['tracers'][k]['alpha_s']) for k in TR) + 1.0
    bigp = (np.abs(T.pvel[:, 2]) + np.abs(T.phvel[:, 2])) * amax / velz >= 0.5 * L
    bigp &= ~exs
    T.pvel[bigp, 2] = 0.1 * T.pvel[bigp, 2]
    still = bigp & ((np.abs(T.pvel[:, 2]) + np.abs(T.phvel[:, 2])) * amax / velz >= 0.5 * L)
    T.pvel[still, 2] = T.phvel[still, 2] + 17.0
    T.configs = configs
    T.ncen_hosts = ncen
    T.L, T.velz, T.origin = L, velz, origin
    return T


def halo_dict(T, with_ab=True):
    d = dict(hpos=T.hpos, hvel=T.hvel, hmass=T.hmass, hid=T.hid, hmultis=T.hmultis, hrandoms=T.hrandoms, hveldev=T.hveldev,
             hsigma3d=np.full(T.H, 300.0), hc=np.full(T.H, 5.0), hrvir=np.full(T.H, 1.0))
    if with_ab:
        d.update(hdeltac=T.hdeltac, hfenv=T.hfenv, hshear=T.hshear)
    return d


def part_dict(T, with_ab=True):
    d = dict(ppos=T.ppos, pvel=T.pvel, phvel=T.phvel, phmass=T.phmass, phid=T.phid, pweights=T.pweights, prandoms=T.prandoms,
             pinds=T.pinds, pranks=T.prk[:, 0].copy(), pranksv=T.prk[:, 1].copy(), pranksp=T.prk[:, 2].copy(),
             pranksr=T.prk[:, 3].copy(), pranksc=np.full(T.P, 0.5))
    if with_ab:
        d.update(pdeltac=T.pdeltac, pfenv=T.pfenv, pshear=T.pshear)
    return d


# ----------------------------------------------------------------------------------------------- expected rows
def expected_rows(pos, vhost, dv, alpha, rsd, L, velz, origin):
    """galaxy position/velocity for every host as if it were selected: v = vhost + alpha*dv"""
    v = vhost + alpha * dv
    x = pos.copy()
    if rsd and origin is not None:
        n = pos - np.asarray(origin, dtype=np.float64)[None, :]
        n = n / np.sqrt((n * n).sum(axis=1))[:, None]
        x = pos + ((v * n).sum(axis=1) / velz)[:, None] * n
    elif rsd:
        z = pos[:, 2] + v[:, 2] / velz
        x[:, 2] = z - L * np.floor((z + L / 2) / L)
    return x, v

"""C12 helper: synthetic "subsample" file sets for AbacusHOD.staging and the reference model of what must be staged.

File formats (from the documented writer abacusnbody/hod/prepare_sim.py and the reader's dataset names):
  <subsample_dir>/<sim_name>/z%4.3f/halos_xcom_<slab>_seed600_abacushod_oldfenv[_MT]_new.h5       dataset 'halos'     (compound)
  <subsample_dir>/<sim_name>/z%4.3f/particles_xcom_<slab>_seed600_abacushod_oldfenv[_MT][_withranks]_new.h5  dataset 'particles'
  <sim_dir>/<sim_name>/halos/z%4.3f/halo_info/*.asdf  (one per slab; only the count and tree['header'] are used)
  <sim_dir>/<sim_name>/z%4.3f/lc_halo_info.asdf       (light cone: one file)

Every value is a tag of (key of the id, column, component, file variant):
  halo      tag = variant*1024 + K*32 + column_index + comp/4          K = 1 + rank of the id in the id universe
  particle  tag = variant*1024 + PK*32 + column_index + comp/4         PK = 3*(K-1) + j + 1  (j-th particle of halo K)
  r25_L2com = 2**-(K+7)   (so that concentration r98/r25 is exact in float32 and float64)
The stored value is the tag mapped injectively and exactly into the physically valid range of its column (see _phys).  The plain/_MT and the plain/_withranks files of one slab describe the
same halos/particles but carry a different `variant`, so reading the wrong file is visible in every column.
"""
import os

import numpy as np

SIM = 'SimC12'
MPART = 2109081520.453063          # AbacusSummit base ParticleMassHMsun
BOX = 2000.0
VELZ = 208774.9025637363
ORIGIN = [[-990.0, -990.0, -990.0], [-990.0, -990.0, -2990.0]]

HALO_COLS = [('id', 'i8', ()), ('x_L2com', 'f4', (3,)), ('v_L2com', 'f4', (3,)), ('N', 'u4', ()),
             ('multi_halos', 'f8', ()), ('randoms', 'f8', ()), ('randoms_exp', 'f8', (3,)),
             ('randoms_gaus_vrms', 'f8', (3,)), ('sigmav3d_L2com', 'f4', ()), ('r98_L2com', 'f4', ()),
             ('r25_L2com', 'f4', ()), ('deltac_rank', 'f8', ()), ('fenv_rank', 'f8', ()), ('shear_rank', 'f8', ()),
             ('npstartA', 'f8', ()), ('npoutA', 'f8', ())]
HCI = {c[0]: i for i, c in enumerate(HALO_COLS)}

PART_COLS = [('pos', 'f4', (3,)), ('vel', 'f4', (3,)), ('halo_vel', 'f4', (3,)), ('halo_mass', 'f4', ()),
             ('halo_id', 'i8', ()), ('Np', 'f8', ()), ('downsample_halo', 'f8', ()), ('randoms', 'f8', ()),
             ('halo_deltac', 'f8', ()), ('halo_fenv', 'f8', ()), ('halo_shear', 'f8', ()),
             ('ranks', 'f8', ()), ('ranksv', 'f8', ()), ('ranksp', 'f8', ()), ('ranksr', 'f8', ()), ('ranksc', 'f8', ())]
PCI = {c[0]: i for i, c in enumerate(PART_COLS)}
OPT_RANKS = ('ranksp', 'ranksr', 'ranksc')

# id universes: the n smallest members are used
UNIVERSES = {
    'small': [0, 1, 2, 3, 4, 5],
    'slabbed': [7, 1000000000003, 1000000000004, 2000000000001, 37000000000002, 37000000000009],
    'huge': [2 ** 62 + 1, 2 ** 62 + 2, 2 ** 62 + 3, 2 ** 62 + 5, 2 ** 62 + 6, 2 ** 62 + 7],   # collide when cast to float64
}


def htag(K, col, comp=0, variant=0):
    return variant * 1024 + K * 32 + HCI[col] + comp * 0.25


def ptag(PK, col, comp=0, variant=0):
    return variant * 1024 + PK * 32 + PCI[col] + comp * 0.25


# physically valid ranges (a loader may legitimately sanity-check its input): uniform deviates and subsampling
# fractions in (0,1), rank columns in [-0.5,0.5), coordinates inside the box, r25 < r98 < 1 Mpc/h, counts/masses/
# multiplicities > 0.  Every map is injective on the tags and exact in float32 (tags have <= 14 significant bits).
UNIT_COLS = {'randoms', 'downsample_halo', 'r98_L2com'}
RANK_COLS = {'deltac_rank', 'fenv_rank', 'shear_rank', 'ranks', 'ranksv', 'ranksp', 'ranksr', 'ranksc'}
POS_COLS = {'x_L2com', 'pos'}


def _phys(col, t):
    if col in UNIT_COLS:
        return t / 4096.0
    if col in RANK_COLS:
        return t / 4096.0 - 0.5
    if col in POS_COLS:
        return t / 8.0
    return t


def hval(K, col, comp=0, variant=0):
    return _phys(col, htag(K, col, comp, variant))


def pval(PK, col, comp=0, variant=0):
    return _phys(col, ptag(PK, col, comp, variant))


def r25(K):
    return 2.0 ** -(K + 7)      # < every r98 value (>= 41/4096); a power of two, so r98/r25 is exact


def pk_of_ppos(x, variant):
    """particle key encoded in the first position component (None if x is no position tag of that file variant)"""
    v = x * 8.0 - variant * 1024 - PCI['pos']
    return int(v // 32) if v % 32 == 0 else None


def zdir(z):
    return 'z%4.3f' % z


def write_headers(root, nslab, z, lightcone):
    """The halo_info ASDF files staging globs for the slab count and the header."""
    import asdf
    header = dict(H0=67.36, BoxSize=BOX, ParticleMassHMsun=MPART, VelZSpace_to_kms=VELZ,
                  LightConeOrigins=ORIGIN, SimName=SIM)
    if lightcone:
        d = os.path.join(root, 'sim', SIM, zdir(z))
        os.makedirs(d, exist_ok=True)
        asdf.AsdfFile(dict(header=header)).write_to(os.path.join(d, 'lc_halo_info.asdf'))
    else:
        d = os.path.join(root, 'sim', SIM, 'halos', zdir(z), 'halo_info')
        os.makedirs(d, exist_ok=True)
        for i in range(nslab):
            asdf.AsdfFile(dict(header=header)).write_to(os.path.join(d, 'halo_info_%03d.asdf' % i))


class FileSet:
    """Description of one subsample file set.

    slabs   : list (one per slab) of lists of halo ids in file order
    npart   : dict id -> number of subsample particles (0..2)
    vel1d   : the velocity-deviate columns are 1-D (legacy files: only the z deviate stored)
    idtype  : dtype of the id columns
    optranks: which of the optional rank columns the _withranks particle files carry
    prev    : particles of a slab are stored in reverse halo order (still grouped in the slab of their halo)
    """

    def __init__(self, slabs, npart, universe, vel1d=False, idtype='i8', optranks=OPT_RANKS, prev=False):
        self.slabs = [list(map(int, s)) for s in slabs]
        self.npart = {int(k): int(v) for k, v in npart.items()}
        ids = sorted(i for s in self.slabs for i in s)
        assert len(set(ids)) == len(ids) and len(ids) >= 1
        uni = sorted(UNIVERSES[universe])[:len(ids)]
        assert ids == uni, (ids, uni)
        self.K = {i: k + 1 for k, i in enumerate(uni)}
        self.vel1d = vel1d
        self.idtype = idtype
        self.optranks = tuple(optranks)
        self.prev = prev

    # ---- writer -------------------------------------------------------------------------------------------------
    def halo_dtype(self):
        dt = []
        for name, t, shape in HALO_COLS:
            if name == 'id':
                t = self.idtype
            if self.vel1d and name in ('randoms_exp', 'randoms_gaus_vrms'):
                shape = ()
            dt.append((name, t, shape) if shape else (name, t))
        return np.dtype(dt)

    def part_dtype(self, ranks):
        dt = []
        for name, t, shape in PART_COLS:
            if name.startswith('ranks'):
                if not ranks or (name in OPT_RANKS and name not in self.optranks):
                    continue
            if name == 'halo_id':
                t = self.idtype
            dt.append((name, t, shape) if shape else (name, t))
        return np.dtype(dt)

    def halo_table(self, ids, variant):
        dt = self.halo_dtype()
        a = np.zeros(len(ids), dtype=dt)
        for r, hid in enumerate(ids):
            K = self.K[hid]
            for name in dt.names:
                if name == 'id':
                    a[name][r] = hid
                elif name == 'r25_L2com':
                    a[name][r] = r25(K)
                elif dt[name].shape:
                    a[name][r] = [hval(K, name, c, variant) for c in range(3)]
                else:
                    a[name][r] = hval(K, name, 0, variant)
        return a

    def part_rows(self, ids):
        """(host id, j) of the particles of one slab in file order."""
        order = list(reversed(ids)) if self.prev else list(ids)
        return [(hid, j) for hid in order for j in range(self.npart.get(hid, 0))]

    def part_table(self, ids, hvariant, ranks):
        variant = hvariant + 2 * int(ranks)
        dt = self.part_dtype(ranks)
        rows = self.part_rows(ids)
        a = np.zeros(len(rows), dtype=dt)
        for r, (hid, j) in enumerate(rows):
            K = self.K[hid]
            PK = 3 * (K - 1) + j + 1
            for name in dt.names:
                if name == 'halo_id':
                    a[name][r] = hid
                elif name == 'halo_vel':
                    a[name][r] = [hval(K, 'v_L2com', c, hvariant) for c in range(3)]
                elif name == 'halo_mass':
                    a[name][r] = np.float32(hval(K, 'N', 0, hvariant) * MPART)
                elif name in ('halo_deltac', 'halo_fenv', 'halo_shear'):
                    a[name][r] = hval(K, name[5:] + '_rank', 0, hvariant)
                elif dt[name].shape:
                    a[name][r] = [pval(PK, name, c, variant) for c in range(3)]
                else:
                    a[name][r] = pval(PK, name, 0, variant)
        return a

    def write(self, root, z, particles=True):
        """Write all file-name variants of every slab (plain and _MT halos; plain/_MT x plain/_withranks particles)."""
        import h5py
        d = os.path.join(root, 'sub', SIM, zdir(z))
        os.makedirs(d, exist_ok=True)
        n = 0
        for s, ids in enumerate(self.slabs):
            for hv, mt in ((0, ''), (1, '_MT')):
                fn = os.path.join(d, 'halos_xcom_%d_seed600_abacushod_oldfenv%s_new.h5' % (s, mt))
                with h5py.File(fn, 'w') as f:
                    f.create_dataset('halos', data=self.halo_table(ids, hv))
                n += 1
                if not particles:
                    continue
                for ranks, rk in ((False, ''), (True, '_withranks')):
                    fn = os.path.join(d, 'particles_xcom_%d_seed600_abacushod_oldfenv%s%s_new.h5' % (s, mt, rk))
                    with h5py.File(fn, 'w') as f:
                        f.create_dataset('particles', data=self.part_table(ids, hv, ranks))
                    n += 1
        return n

    # ---- reference model --------------------------------------------------------------------------------------------
    def expected(self, loaded_slabs, mt, want_AB, want_shear, want_ranks, want_expvel, particles=True):
        """What the property demands of the staged arrays, from the description alone.

        Returns (hid sorted, {halo array name: function id -> expected value}, particle rows in file order,
                 {particle array name: function (hid, j) -> expected value})."""
        hv = 1 if mt else 0
        pv = hv + 2 * int(want_ranks)
        K = self.K
        ids = sorted(i for s in loaded_slabs for i in self.slabs[s])

        def vec(col):
            return lambda i: [hval(K[i], col, c, hv) for c in range(3)]

        def sca(col):
            return lambda i: hval(K[i], col, 0, hv)
        devcol = 'randoms_exp' if want_expvel else 'randoms_gaus_vrms'
        H = dict(hpos=vec('x_L2com'), hvel=vec('v_L2com'),
                 hmass=lambda i: hval(K[i], 'N', 0, hv) * MPART,
                 hmultis=sca('multi_halos'), hrandoms=sca('randoms'),
                 hveldev=(lambda i: [hval(K[i], devcol, 0, hv)] * 3) if self.vel1d else vec(devcol),
                 hsigma3d=sca('sigmav3d_L2com'),
                 hc=lambda i: hval(K[i], 'r98_L2com', 0, hv) / r25(K[i]),
                 hrvir=sca('r98_L2com'))
        if want_AB:
            H['hdeltac'] = sca('deltac_rank')
            H['hfenv'] = sca('fenv_rank')
        if want_shear:
            H['hshear'] = sca('shear_rank')
        rows = [r for s in loaded_slabs for r in self.part_rows(self.slabs[s])] if particles else []

        def PKof(r):
            return 3 * (K[r[0]] - 1) + r[1] + 1

        def pvec(col):
            return lambda r: [pval(PKof(r), col, c, pv) for c in range(3)]

        def psca(col):
            return lambda r: pval(PKof(r), col, 0, pv)
        P = dict(ppos=pvec('pos'), pvel=pvec('vel'),
                 phvel=lambda r: [hval(K[r[0]], 'v_L2com', c, hv) for c in range(3)],
                 phmass=lambda r: float(np.float32(hval(K[r[0]], 'N', 0, hv) * MPART)),
                 phid=lambda r: r[0],
                 pweights=lambda r: 1.0 / pval(PKof(r), 'Np', 0, pv) / pval(PKof(r), 'downsample_halo', 0, pv),
                 prandoms=psca('randoms'))
        if want_AB:
            P['pdeltac'] = lambda r: hval(K[r[0]], 'deltac_rank', 0, hv)
            P['pfenv'] = lambda r: hval(K[r[0]], 'fenv_rank', 0, hv)
        if want_shear:
            P['pshear'] = lambda r: hval(K[r[0]], 'shear_rank', 0, hv)
        if want_ranks:
            # only the rank columns actually stored are part of the oracle (defaults for absent ones are a convention)
            for out, col in (('pranks', 'ranks'), ('pranksv', 'ranksv'), ('pranksp', 'ranksp'), ('pranksr', 'ranksr'),
                             ('pranksc', 'ranksc')):
                if col not in OPT_RANKS or col in self.optranks:
                    P[out] = psca(col)
        return ids, H, rows, P

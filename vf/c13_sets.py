"""Particle sets and exact whole-cell translations for the C13 check.

A coordinate is kept symbolically as (m, e): value = m * h / 8 - e * epsB, m an integer number of eighth-cells,
e in {0, 1}, epsB = Box - nextafter(Box, 0) in the position dtype (so (8g, 1) is the largest position below Box).
Translation by k cells: m += 8k, reduced by 8g when the value would reach Box.  For h in {1, 250} and g <= 8 every
such value is exactly representable in float32 and float64 (selfcheck proves it with rationals; translated() re-checks
every array it hands out in a wider float type).
"""
from fractions import Fraction

import numpy as np

WEIGHTS = (1.0, 2.5, 0.0, 0.5, 3.0)
MULT = (1, 5, 7)          # coprime with the alphabet length 12: every value occurs on every axis for N >= 12


def alphabet(g):
    """per-axis coordinate alphabet as (m, e); cell centres (integers), half-cell edges, quarter/eighth points, 0, Box-1ulp"""
    G = 8 * g
    return [(0, 0), (G, 1), (4, 0), (G - 4, 0), (8, 0), (G - 8, 0), (12, 0), (2, 0), (G - 2, 0), (4 * g, 0), (19, 0), (G - 13, 0)]


def alphabet_desc():
    return ['0', 'g-1ulp', '1/2', 'g-1/2', '1', 'g-1', '3/2', '1/4', 'g-1/4', 'g/2', '19/8', 'g-13/8']


class PSet:
    def __init__(self, name, g, h, dtype):
        self.name, self.g, self.h, self.dtype = name, g, h, np.dtype(dtype).type
        spec, _, wflag = name.partition('+')
        self.n = int(spec[:-1])
        v = 'ab'.index(spec[-1])
        A = alphabet(g)
        L = len(A)
        self.m = np.empty((self.n, 3), dtype=np.int64)
        self.e = np.empty((self.n, 3), dtype=np.int64)
        for i in range(self.n):
            for a in range(3):
                self.m[i, a], self.e[i, a] = A[(i * MULT[a] + 3 * a + v * (a + 1) + (i // L) * (a + 2)) % L]
        box = self.dtype(g * h)
        self.box = box
        self.eps = box - np.nextafter(box, self.dtype(0))
        self.weights = None
        if wflag:
            self.weights = np.array([WEIGHTS[(i + v) % len(WEIGHTS)] for i in range(self.n)], dtype=self.dtype)

    def _values(self, m, e):
        v = (m.astype(np.float64) * self.h / 8.0).astype(self.dtype) - e.astype(self.dtype) * self.eps
        # exactness in a wider type
        wide = np.float64 if self.dtype is np.float32 else np.longdouble
        ref = (m.astype(wide) * wide(self.h) / wide(8)) - e.astype(wide) * wide(self.eps)
        ok = bool((v.astype(wide) == ref).all() and (v >= 0).all() and (v < self.box).all() and v.dtype == np.dtype(self.dtype))
        return v, ok

    def pos(self):
        v, ok = self._values(self.m, self.e)
        assert ok, 'base positions not exact'
        return v

    def w(self):
        return None if self.weights is None else self.weights.copy()

    def translated(self, shift_cells):
        G = 8 * self.g
        m = self.m + 8 * np.asarray(shift_cells, dtype=np.int64)[None, :]
        over = (m > G) | ((m == G) & (self.e == 0))
        m = np.where(over, m - G, m)
        over = (m > G) | ((m == G) & (self.e == 0))
        m = np.where(over, m - G, m)
        return self._values(m, self.e)

    def perms(self):
        n = self.n
        out, seen = [], {tuple(range(n))}
        for name, order in (('reverse', list(range(n))[::-1]), ('rotate1', list(range(1, n)) + [0] if n else []),
                            ('swap01', [1, 0] + list(range(2, n)) if n >= 2 else list(range(n)))):
            if tuple(order) in seen:
                continue
            seen.add(tuple(order))
            out.append((name, np.array(order, dtype=np.int64)))
        return out

    def cells_str(self):
        def one(m, e):
            s = f'{Fraction(int(m), 8)}'
            return s + ('-ulp' if e else '')
        rows = ['(' + ','.join(one(self.m[i, a], self.e[i, a]) for a in range(3)) + ')' for i in range(min(self.n, 8))]
        return '[' + ' '.join(rows) + (' ...' if self.n > 8 else '') + ']'


_CACHE = {}


def build(name, g, h, dtype):
    k = (name, g, h, np.dtype(dtype).str)
    if k not in _CACHE:
        _CACHE[k] = PSet(name, g, h, dtype)
    return _CACHE[k]


def selfcheck(nmeshes, cells):
    """with rationals: every (m, e) value reachable by translation is exactly representable and inside [0, Box)"""
    for g in nmeshes:
        for h in cells:
            for dt in (np.float32, np.float64):
                box = dt(g * h)
                eps = box - np.nextafter(box, dt(0))
                assert Fraction(float(box)) == Fraction(g) * Fraction(h)
                for m in range(0, 8 * g + 1):
                    for e in (0, 1):
                        if (m == 0 and e == 1) or (m == 8 * g and e == 0):
                            continue
                        want = Fraction(m) * Fraction(h) / 8 - e * Fraction(float(eps))
                        got = dt(m * h / 8.0) - dt(e) * eps
                        assert Fraction(float(got)) == want and 0 <= want < Fraction(float(box)), (g, h, dt, m, e)
    # the translation arithmetic itself, against rationals, on one set per mesh
    for g in nmeshes:
        ps = PSet('24a', g, cells[-1], np.float32)
        p0 = ps.pos()
        for sh in ((g, 0, 0), (1, 2, g - 1), (0, g - 1, 3)):
            pt, ok = ps.translated(sh)
            assert ok
            for i in range(ps.n):
                for a in range(3):
                    want = (Fraction(float(p0[i, a])) + sh[a] * Fraction(cells[-1])) % (Fraction(g) * Fraction(cells[-1]))
                    assert Fraction(float(pt[i, a])) == want, (g, sh, i, a)

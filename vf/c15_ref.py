"""Independent pack9 reference (encoder + two decoders) for check C15.

Format, as documented by abacusnbody/data/pack9.py (written down here once, everything below follows it):

* A stream is a sequence of 9-byte records.  A record is three 3-byte groups; group g = bytes (b0, b1, b2) at
  offsets 3g..3g+2 carries two unsigned 12-bit fields

      A = field[2g]   = b0 * 16 + (b1 mod 16)          (b0 = high 8 bits, low nibble of b1 = low 4 bits)
      B = field[2g+1] = (b1 div 16) * 256 + b2         (high nibble of b1 = high 4 bits, b2 = low 8 bits)

  Each field is a signed value s = field - 2048, s in -2048..2047.
* A record whose first byte is 0xFF is a CELL HEADER.  Its signed values carry integers biased by a further 2000
  (integer = s + 2000 = field - 48): s1 -> cells per dimension `cpd`, s2 -> integer velocity scale `vs`,
  s3, s4, s5 -> cell index (i, j, k).  s0 is only the marker (0xFF in the top 8 bits; its low nibble is unused).
  A header yields no particle.
* Every other record is a PARTICLE, decoded relative to the most recent header:
      cell size      csize  = boxsize / cpd
      cell centre    centre = (index + 0.5) * csize - boxsize / 2         (per dimension)
      position       x[d]   = centre[d] + s[d] * 0.0005 * csize           (d = 0, 1, 2;   quantum 0.0005 csize)
      velocity       v[d]   = s[3 + d] * vs * 0.0005 / cpd * velzspace_to_kms   (quantum vs * 0.0005 / cpd * velz)
  A particle before any header has no reference cell: all six outputs are NaN.
* Output: one row per particle record, in stream order.

Nothing here imports abacusnbody.
"""
import math

import numpy as np

BIAS = 2048
HBIAS = 2000
QUANT = 0.0005


# ------------------------------------------------------------------ field <-> byte layer
def pack_fields(F):
    """(...,6) unsigned 12-bit fields -> (...,9) uint8 records"""
    F = np.asarray(F)
    if not ((F >= 0) & (F < 4096)).all():
        raise ValueError('field out of 12-bit range')
    out = np.empty(F.shape[:-1] + (9,), dtype=np.uint8)
    for g in range(3):
        A = F[..., 2 * g]
        B = F[..., 2 * g + 1]
        out[..., 3 * g] = A // 16
        out[..., 3 * g + 1] = (A % 16) + 16 * (B // 256)
        out[..., 3 * g + 2] = B % 256
    return out


def unpack_fields(R):
    """(...,9) uint8 records -> (...,6) int32 unsigned 12-bit fields"""
    R = np.asarray(R).astype(np.int32)
    F = np.empty(R.shape[:-1] + (6,), dtype=np.int32)
    for g in range(3):
        b0, b1, b2 = R[..., 3 * g], R[..., 3 * g + 1], R[..., 3 * g + 2]
        F[..., 2 * g] = b0 * 16 + b1 % 16
        F[..., 2 * g + 1] = (b1 // 16) * 256 + b2
    return F


def header_record(cpd, vs, cell, junk=0):
    """one header record; `junk` fills the unused low nibble of field 0"""
    f = [0xFF0 + junk, cpd + BIAS - HBIAS, vs + BIAS - HBIAS] + [c + BIAS - HBIAS for c in cell]
    return pack_fields(np.array(f))


def particle_records(S):
    """(...,6) signed values -> particle records (first byte must not be the header marker)"""
    S = np.asarray(S, dtype=np.int64)
    R = pack_fields(S + BIAS)
    if (R[..., 0] == 0xFF).any():
        raise ValueError('particle whose first byte is the header marker')
    return R


# ------------------------------------------------------------------ decoder 1: sequential, plain Python
def decode_sequential(records, boxsize, velz):
    """list of 9-int records -> (list of (pos3, vel3) in float64/NaN, final header state or None)"""
    state = None
    out = []
    for rec in records:
        rec = [int(b) for b in rec]
        f = []
        for g in range(3):
            b0, b1, b2 = rec[3 * g:3 * g + 3]
            f.append(b0 * 16 + b1 % 16)
            f.append((b1 // 16) * 256 + b2)
        s = [x - BIAS for x in f]
        if rec[0] == 0xFF:
            state = (s[1] + HBIAS, s[2] + HBIAS, (s[3] + HBIAS, s[4] + HBIAS, s[5] + HBIAS))
            continue
        if state is None:
            out.append(([math.nan] * 3, [math.nan] * 3))
            continue
        cpd, vs, cell = state
        csize = boxsize / cpd
        pos = [(cell[d] + 0.5) * csize - boxsize / 2 + s[d] * QUANT * csize for d in range(3)]
        vq = vs * QUANT / cpd * velz
        vel = [s[3 + d] * vq for d in range(3)]
        out.append((pos, vel))
    return out, state


# ------------------------------------------------------------------ decoder 2: vectorised
def decode(R, boxsize, velz):
    """(N,9) uint8 -> dict(pos, vel (n,3) float64, posmag, velmag = magnitudes governing rounding, n, hdr)"""
    R = np.asarray(R, dtype=np.uint8).reshape(-1, 9)
    N = len(R)
    F = unpack_fields(R)
    S = F - BIAS
    ish = R[:, 0] == 0xFF
    last = np.maximum.accumulate(np.where(ish, np.arange(N), -1)) if N else np.zeros(0, dtype=np.int64)
    rows = np.nonzero(~ish)[0]
    h = last[rows]
    ok = h >= 0
    hh = np.where(ok, h, 0)
    cpd = (S[hh, 1] + HBIAS).astype(np.float64)
    if (cpd[ok] <= 0).any():
        raise ValueError('cells per dimension <= 0 is outside the property')
    cpd = np.where(ok, cpd, np.nan)
    vs = (S[hh, 2] + HBIAS).astype(np.float64)
    cell = (S[hh, 3:6] + HBIAS).astype(np.float64)
    with np.errstate(invalid='ignore'):
        csize = boxsize / cpd
        ct = (cell + 0.5) * csize[:, None]
        off = S[rows, 0:3] * (QUANT * csize)[:, None]
        pos = ct - boxsize / 2 + off
        vq = vs * QUANT / cpd * velz
        vel = S[rows, 3:6] * vq[:, None]
        posmag = np.abs(ct) + abs(boxsize) / 2 + np.abs(off)
    return dict(pos=pos, vel=vel, posmag=posmag, velmag=np.abs(vel), n=len(rows), last_header=h, nohdr=~ok)


# ------------------------------------------------------------------ encoder (global position/velocity -> stream)
def encode(x, v, boxsize, velz, cpd, vs):
    """x (n,3) in [-boxsize/2, boxsize/2], v (n,3).  Particles are grouped by cell (cells in order of first
    appearance, particles in input order inside a cell).  Returns (records (N,9), order = input index of every
    emitted particle, ncell)."""
    x = np.asarray(x, dtype=np.float64)
    v = np.asarray(v, dtype=np.float64)
    csize = boxsize / cpd
    cell = np.clip(np.floor((x + boxsize / 2) / csize), 0, cpd - 1).astype(np.int64)
    centre = (cell + 0.5) * csize - boxsize / 2
    s = np.rint((x - centre) / (QUANT * csize)).astype(np.int64)
    vq = vs * QUANT / cpd * velz
    sv = np.rint(v / vq).astype(np.int64)
    if np.abs(s).max(initial=0) > 1000 or sv.max(initial=0) > 2047 or sv.min(initial=0) < -2048:
        raise ValueError('not encodable')
    key = (cell[:, 0] * cpd + cell[:, 1]) * cpd + cell[:, 2]
    uk, first = np.unique(key, return_index=True)
    recs = []
    order = []
    for k in uk[np.argsort(first, kind='stable')]:
        idx = np.nonzero(key == k)[0]
        recs.append(header_record(cpd, vs, [int(c) for c in cell[idx[0]]], junk=int(k % 16)).reshape(1, 9))
        recs.append(particle_records(np.concatenate([s[idx], sv[idx]], axis=1)))
        order.append(idx)
    if not recs:
        return np.zeros((0, 9), np.uint8), np.zeros(0, np.int64), 0
    return np.concatenate(recs), np.concatenate(order), len(uk)


# ------------------------------------------------------------------ self check of the reference itself
def selfcheck():
    # byte layer is a bijection on every 3-byte group: all 2^24 patterns survive unpack -> pack
    lo, hi = 4095, 0
    for blk in range(16):
        t = np.arange(blk << 20, (blk + 1) << 20, dtype=np.int64)
        R = np.zeros((1 << 20, 9), dtype=np.uint8)
        for g in range(3):
            R[:, 3 * g] = t >> 16
            R[:, 3 * g + 1] = ((t >> 8) + 37 * g) & 255
            R[:, 3 * g + 2] = (t + 91 * g) & 255
        F = unpack_fields(R)
        lo, hi = min(lo, int(F.min())), max(hi, int(F.max()))
        assert np.array_equal(pack_fields(F), R), 'pack/unpack of the reference are not inverse'
    assert (lo, hi) == (0, 4095)
    # the two decoders agree (to float64 rounding) on a mixed stream incl. particle-before-header
    rng_s = [[-1000, 1000, 0, 2047, -2048, 1], [999, -1, 123, -777, 0, 2000], [-2048, 2047, 5, 6, 7, 8]]
    recs = [particle_records(rng_s[0]), header_record(5, 1200, (0, 4, 2)), particle_records(rng_s[1]),
            particle_records(rng_s[2]), header_record(1875, 37, (1874, 0, 937), junk=15), particle_records(rng_s[0]),
            header_record(1, 4047, (0, 0, 0)), header_record(7, -48, (-48, 4047, 3)), particle_records(rng_s[2])]
    R = np.stack(recs)
    seq, st = decode_sequential(R.tolist(), 2000.0, 1234.5)
    vec = decode(R, 2000.0, 1234.5)
    assert vec['n'] == len(seq) == 5 and st == (7, -48, (-48, 4047, 3))
    assert np.allclose(np.array([p for p, _ in seq]), vec['pos'], rtol=1e-13, atol=1e-10, equal_nan=True)
    assert np.allclose(np.array([v for _, v in seq]), vec['vel'], rtol=1e-13, atol=0, equal_nan=True)
    assert np.isnan(vec['pos'][0]).all() and not np.isnan(vec['pos'][1:]).any()
    # encoder -> reference decoder within half a quantum
    x = np.array([[-1000.0, 999.999, 0.0], [3.25, -77.0, 512.0], [-1000.0, 999.9, 0.3]])
    v = np.array([[100.0, -100.0, 0.0], [1.0, 2.0, 3.0], [0.0, 0.0, -55.5]])
    rec, order, ncell = encode(x, v, 2000.0, 1000.0, 5, 2000)
    d = decode(rec, 2000.0, 1000.0)
    assert d['n'] == 3 and ncell == 2 and len(rec) == 5
    assert np.abs(d['pos'] - x[order]).max() <= 0.5 * QUANT * 400 * (1 + 1e-9)
    assert np.abs(d['vel'] - v[order]).max() <= 0.5 * 2000 * QUANT / 5 * 1000 * (1 + 1e-9)

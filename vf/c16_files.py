"""C16 helpers: synthetic particle files and format-level reference decoders.

Everything here is written from the documented formats (RVint: 20-bit signed position in 1e-6 box units +
12-bit velocity; pack9: 9 bytes = 6 x 12-bit fields biased by 2048, a record whose first byte is 0xFF is a
cell header {_, cells-per-dimension, velocity scale, i, j, k} biased by 2000; packed PID/aux word), never by
calling abacusnbody.
"""
import numpy as np

from vf import refs

KNOWN = ('rvint', 'pack9', 'packedpid', 'pid')
PIDCOLS = ('pid', 'lagr_pos', 'tagged', 'density', 'lagr_idx', 'aux')
FLOATCOLS = ('pos', 'vel', 'lagr_pos', 'density')


# ------------------------------------------------------------------------------------------------ headers
def header(kind, box, velz, ppd):
    h = {'BoxSize': box, 'VelZSpace_to_kms': velz, 'ppd': ppd, 'SimName': 'vf_c16', 'NP': 216,
         'GroupRadius': [1, 2, 3], 'Redshift': 0.5}
    if kind == 'snap':
        h['OutputType'] = 'TimeSlice'
        h['SimSet'] = 'AbacusSummit'
        h['ParticleSubsampleA'] = 0.03      # present but must NOT produce a SubsampleFraction
        h['ParticleSubsampleB'] = 0.07
    elif kind == 'bare':                    # no OutputType at all
        pass
    elif kind == 'lc':
        h['OutputType'] = 'LightCone'
        h['SimSet'] = 'AbacusSummit'
        h['ParticleSubsampleA'] = 0.03
        h['ParticleSubsampleB'] = 0.07
    elif kind == 'lc2':                     # binary-inexact fractions
        h['OutputType'] = 'LightCone'
        h['SimSet'] = 'AbacusSummit'
        h['ParticleSubsampleA'] = 0.1
        h['ParticleSubsampleB'] = 0.2
    elif kind == 'lcother':                 # light cone of another simulation set: nothing documented to add
        h['OutputType'] = 'LightCone'
        h['SimSet'] = 'Other'
        h['ParticleSubsampleA'] = 0.03
        h['ParticleSubsampleB'] = 0.07
    else:
        raise ValueError(kind)
    return h


def expected_meta(h):
    e = dict(h)
    if h.get('OutputType') == 'LightCone' and h.get('SimSet') == 'AbacusSummit':
        e['SubsampleFraction'] = h['ParticleSubsampleA'] + h['ParticleSubsampleB']
    return e


# ------------------------------------------------------------------------------------------------ raw columns
def make_rvint(n, salt=0):
    """(n,3) int32, all 9 (sign of position) x (low/high velocity) flavours occur for n >= 5; rows all distinct."""
    i = np.arange(n * 3, dtype=np.int64).reshape(n, 3)
    posq = ((i * 104729 + 7919 * (salt + 1)) % 1000000) - 500000      # [-500000, 500000)
    if n:
        posq[0, 0] = -500000
        posq[-1, 2] = 499999
    velq = (i * 811 + 5 + salt) % 4096
    w = ((posq & 0xFFFFF) << 12) | velq
    return w.astype(np.uint32).view(np.int32).reshape(n, 3)


def p9_pack(v):
    """six 12-bit unsigned fields -> 9 bytes"""
    v = [int(x) for x in v]
    assert all(0 <= x < 4096 for x in v), v
    out = []
    for a, b in ((v[0], v[1]), (v[2], v[3]), (v[4], v[5])):
        out += [a >> 4, (a & 0xF) | ((b >> 8) << 4), b & 0xFF]
    return out


def p9_header(cpd, vs, i, j, k):
    # first field: top byte 0xFF marks a header
    return p9_pack([0xFF0, cpd - 2000 + 2048, vs - 2000 + 2048, i - 2000 + 2048, j - 2000 + 2048, k - 2000 + 2048])


def p9_particle(s):
    """s: six signed fields in [-2048, 2047], first one below 0xFF0-2048 so that the record is not a header"""
    assert s[0] + 2048 < 0xFF0
    return p9_pack([x + 2048 for x in s])


def make_pack9(n, salt=0):
    """returns ((nrec,9) uint8, list of logical records).  A header first, a second header after 2 particles,
    a third (unused, trailing) header at the end when n == 5."""
    recs = []
    if n == 0 and salt % 2 == 0:
        pass                                 # completely empty column
    else:
        recs.append(('h', (5, 2003 + salt, 1, 4, 0)))
    for p in range(n):
        if p == 2:
            recs.append(('h', (7, 1999, 6, 0, 3 + salt % 3)))
        if p == 3:
            recs.append(('h', (7, 2222, 2, 5, 1)))      # same cells-per-dimension as the previous header, another velocity scale and cell
        s = [((p * 6 + c) * 397 + 31 * salt) % 2001 - 1000 for c in range(3)]
        s += [((p * 6 + c) * 1201 + 17 * salt) % 4001 - 2000 for c in range(3)]
        if p == 0:
            s[0], s[3] = -1000, -2048
        if p == n - 1 and n > 1:
            s[2], s[5] = 1000, 2047
        recs.append(('p', tuple(s)))
    if n == 5:
        recs.append(('h', (11, 2100, 0, 0, 0)))
    rows = [p9_header(*r[1]) if r[0] == 'h' else p9_particle(r[1]) for r in recs]
    return np.array(rows, dtype=np.uint8).reshape(len(rows), 9), recs


def p9_ref(raw, box, velz):
    """float64 reference decode of a pack9 byte array; returns pos (n,3), vel (n,3), indices of the particle records"""
    pos, vel, idx = [], [], []
    cpd = vs = cell = None
    for r, rec in enumerate(np.asarray(raw, dtype=np.int64).reshape(-1, 9)):
        f = []
        for g in range(3):
            a, b, c = rec[3 * g:3 * g + 3]
            f += [(a << 4) | (b & 0xF), ((b >> 4) << 8) | c]
        s = [x - 2048 for x in f]
        if rec[0] == 0xFF:
            cpd, vs, cell = s[1] + 2000, s[2] + 2000, (s[3] + 2000, s[4] + 2000, s[5] + 2000)
        else:
            assert cpd is not None
            cs = box / cpd
            pos.append([(cell[k] + 0.5 + s[k] * 0.0005) * cs - box / 2 for k in range(3)])
            vel.append([s[3 + k] * (vs * 0.0005 / cpd * velz) for k in range(3)])
            idx.append(r)
    return (np.array(pos, dtype=np.float64).reshape(-1, 3), np.array(vel, dtype=np.float64).reshape(-1, 3), idx)


def make_pids(n, salt=0, ppd=6):
    out = []
    for p in range(n):
        q = p * 5 + salt
        ix, iy, iz = (q * 7 + 1) % ppd, (q * 11 + 2) % ppd, (q * 13 + 3) % ppd
        if p == n - 1 and n > 1:
            ix, iy, iz = 0x7FFF, ppd - 1, 0x7FFF     # all 15 bits set (index far outside ppd is still a legal bit pattern)
        tagged = (p + salt) & 1
        dens = [0, 1023, 37, 512, 999][(p + salt) % 5]
        junk = [0, -1, 1 << 15, 1 << 63, (1 << 31) | (1 << 47)][(p + 2 * salt) % 5] & 0xFFFFFFFFFFFFFFFF
        out.append(refs.make_packedpid(ix, iy, iz, tagged, dens, junk))
    return np.array(out, dtype=np.uint64).reshape(n)


# ------------------------------------------------------------------------------------------------ reference tables
def reference(coltype, raw, hdr):
    """dict column -> (reference array, kind) with kind in {'exact', 'abs', 'rel'}; 'n' -> number of particles"""
    box, velz = hdr['BoxSize'], hdr['VelZSpace_to_kms']
    if coltype == 'rvint':
        pos, vel = refs.rvint_ref(raw, box)
        return dict(n=len(raw), pos=(pos.reshape(-1, 3), 'abs'), vel=(vel.reshape(-1, 3), 'rel'), aux=(np.asarray(raw), 'exact'))
    if coltype == 'pack9':
        pos, vel, idx = p9_ref(raw, box, velz)
        return dict(n=len(idx), pos=(pos, 'abs'), vel=(vel, 'rel'))
    if coltype == 'pidlike':
        ppd = int(round(hdr['ppd']))
        r = refs.pid_ref(raw, box=box, ppd=ppd)
        return dict(n=len(raw), pid=(r['pid'], 'exact'), lagr_idx=(r['lagr_idx'], 'exact'), tagged=(r['tagged'], 'exact'),
                    density=(r['density'].astype(np.float64), 'exact'), lagr_pos=(r['lagr_pos'].reshape(-1, 3), 'abs'),
                    aux=(np.asarray(raw), 'exact'))
    raise ValueError(coltype)


def coltype_of(name):
    if name == 'rvint' or name == 'pack9':
        return name
    if 'pid' in name:
        return 'pidlike'
    return None


def write(path, hdr, data, compression=None):
    import asdf
    af = asdf.AsdfFile({'header': dict(hdr), 'data': {k: np.array(v) for k, v in data.items()}})
    if compression:
        from vf import asdfpatch
        asdfpatch.patch()
        af.write_to(path, all_array_compression=compression)
    else:
        af.write_to(path)

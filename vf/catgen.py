"""Synthetic CompaSO catalogs served through an in-memory asdf double.

* the directory tree is real (placeholder files) so CompaSOHaloCatalog._setup_file_paths runs unmodified;
* file *contents* are served by FakeAsdf keyed by absolute path (environment double for asdf.open);
* every particle record carries a unique serial number in its bits, so a decoded particle names its record.

The conformance path (write_real) writes the same trees as real ASDF files.
"""
import copy
import os
import shutil
import tempfile
import zlib
import atexit

import numpy as np

from . import refs

SIM = 'SynthSim'
ZDIR = 'z0.500'
NPREV = 2
COMS = ('com', 'L2com')
RADII = ('r10', 'r25', 'r33', 'r50', 'r67', 'r75', 'r90', 'r95', 'r98')

# serial-number bases (all < 2^19 so that they fit the signed 20-bit position field as positives)
BASE = dict(A=0, B=100000, mA=200000, mB=300000, gap=400000, junk=450000)


def raw_layout():
    L = [('id', 'u8', ()), ('npstartA', 'u8', ()), ('npstartB', 'u8', ()), ('npoutA', 'u4', ()), ('npoutB', 'u4', ()),
         ('ntaggedA', 'u4', ()), ('ntaggedB', 'u4', ()), ('N', 'u4', ()), ('L2_N', 'u4', (5,)), ('L0_N', 'u4', ())]
    for c in COMS:
        L += [(f'x_{c}', 'f4', (3,)), (f'v_{c}', 'f4', (3,))]
        for s in ('sigmav3d', 'meanSpeed', 'sigmav3d_r50', 'meanSpeed_r50', 'r100', 'vcirc_max'):
            L += [(f'{s}_{c}', 'f4', ())]
    for so in ('SO', 'SO_L2max'):
        L += [(f'{so}_central_particle', 'f4', (3,)), (f'{so}_central_density', 'f4', ()), (f'{so}_radius', 'f4', ())]
    for c in COMS:
        for s in ('sigmavMin', 'sigmavMax', 'sigmavrad', 'sigmavtan'):
            L += [(f'{s}_to_sigmav3d_{c}_i16', 'i2', ())]
        for s in ('sigmav', 'sigmar', 'sigman'):
            L += [(f'{s}_eigenvecs_{c}_u16', 'u2', ())]
        for r in RADII:
            L += [(f'{r}_{c}_i16', 'i2', ())]
        L += [(f'sigmar_{c}_i16', 'i2', (3,)), (f'sigman_{c}_i16', 'i2', (3,)), (f'rvcirc_max_{c}_i16', 'i2', ())]
    return L


def clean_layout():
    return [('npstartA_merge', 'i8', ()), ('npstartB_merge', 'i8', ()), ('npoutA_merge', 'u4', ()),
            ('npoutB_merge', 'u4', ()), ('N_total', 'u4', ()), ('N_merge', 'u4', ()), ('haloindex', 'u8', ()),
            ('is_merged_to', 'i8', ()), ('N_mainprog', 'u4', (NPREV,)), ('vcirc_max_L2com_mainprog', 'f4', (NPREV,)),
            ('sigmav3d_L2com_mainprog', 'f4', (NPREV,)), ('haloindex_mainprog', 'i8', ()),
            ('v_L2com_mainprog', 'f4', (3,))]


def _h(name):
    return zlib.crc32(name.encode())


def fill_values(layout, rows, skip=()):
    """Deterministic, column- and row-distinct values; wide enough that a narrower dtype would change them."""
    out = {}
    rows = np.asarray(rows, dtype=np.int64)
    n = len(rows)
    for name, dt, tail in layout:
        if name in skip:
            continue
        h = _h(name)
        k = int(np.prod(tail)) if tail else 1
        comp = np.arange(k, dtype=np.int64)[None, :]
        r = rows[:, None]
        if dt == 'f4':
            v = ((h % 89) + 1) / 97.0 * 0.5 + (r % 50) * 0.0093 + comp * 0.0411
            v = v.astype(np.float32)
        elif dt == 'i2':
            if 'sigmavMin' in name:
                v = 6000 + (h % 1000) + (r % 50) * 37 + comp
            elif 'sigmavMax' in name:
                v = 21000 + (h % 1000) + (r % 50) * 41 + comp
            else:
                v = 300 + (h % 20000) + (r % 50) * 113 + comp * 1009
            v = v.astype(np.int16)
        elif dt == 'u2':
            v = ((h % 60000) + (r % 50) * 977 + comp) % 65340
            v = v.astype(np.uint16)
        elif dt in ('u4',):
            # beyond 2^24 / near 2^32: a detour through float32 or a signed 32-bit type changes them
            v = ((1 << 32) - 1 - ((h % 100000) + r * 3 + comp * 7)).astype(np.uint32)
        elif dt == 'u8':
            # beyond 2^53 / near 2^64: a detour through float64 or int64 changes them
            v = (np.uint64((1 << 64) - 1) - ((h % 100000) + r * 5 + comp).astype(np.uint64))
        elif dt == 'i8':
            v = ((1 << 62) + (h % 100000) + r * 5 + comp) * np.where(r % 2 == 0, 1, -1)
            v = v.astype(np.int64)
        else:
            raise ValueError(dt)
        out[name] = v.reshape((n,) + tuple(tail))
    return out


def rv_record(serial):
    """One rvint record (3 int32 words) naming `serial` in x; y and z carry different derived numbers."""
    s = int(serial)
    ws = []
    for j, hi in enumerate((s, (s * 3 + 1) % 524287, -((s * 5 + 2) % 524287) - 1)):
        lo = (s * (7 + 6 * j) + j) & 0xFFF
        ws.append(((hi & 0xFFFFF) << 12) | lo)
    return np.array(ws, dtype=np.uint32).view(np.int32)


def pid_record(serial):
    s = int(serial)
    ix, iy, iz = s & 0x7FFF, (s >> 15) & 0x7FFF | 0x100, (s * 11 + 5) & 0x7FFF
    junk = ((s * 0x9E3779B97F4A7C15) & 0xFFFFFFFFFFFFFFFF)
    return np.uint64(refs.make_packedpid(ix, iy, iz, s & 1, (s * 3 + 1) & 0x3FF, junk))


def serial_of_pos_x(posx, box):
    return int(round(float(posx) / (box / 1e6)))


def serial_of_pid(pid):
    p = int(pid)
    lo, mid = p & 0x7FFF, ((p >> 16) & 0x7FFF) & ~0x100
    return lo | (mid << 15)


class Catalog:
    """slabs: list of lists of halo dicts with keys
         nA, nB   original particle counts; gA, gB  L0 records before the halo's range;
         mA, mB   merged particle counts;   jA, jB  junk records before the merged range; away  bool
    """

    def __init__(self, slabs, box=32.0, velz=3200.0, ppd=64.0, slab_ids=None, haloval_rows=None, trailing=True):
        self.slabs = slabs
        self.trailing = trailing   # False: no unindexed record after the last halo (a slab without particles has an EMPTY file)
        self.box, self.velz, self.ppd = box, velz, ppd
        self.slab_ids = list(slab_ids) if slab_ids is not None else list(range(len(slabs)))
        self.header = dict(BoxSize=box, VelZSpace_to_kms=velz, ppd=ppd, SimName=SIM, Redshift=0.5,
                           OutputType='GroupOutput', ParticleSubsampleA=0.03, ParticleSubsampleB=0.07)
        self.clean_header = dict(self.header, TimeSliceRedshiftsPrev=[0.8, 1.1][:NPREV])
        self.files = {}     # relative path -> dict(header, data)
        self.model = []     # per slab: list of halo model dicts
        self._build()

    def _build(self):
        ser = {k: v for k, v in BASE.items()}
        grow = 0
        for si, halos in zip(self.slab_ids, self.slabs):
            nh = len(halos)
            rows = np.arange(grow, grow + nh)
            raw = fill_values(raw_layout(), rows)
            cl = fill_values(clean_layout(), rows)
            part = {X: dict(rv=[], pid=[]) for X in 'AB'}
            mpart = {X: dict(rv=[], pid=[]) for X in 'AB'}
            mod = []
            for hi, h in enumerate(halos):
                m = dict(id=int(raw['id'][hi]), away=bool(h.get('away')), row=grow + hi, slab=si)
                for X in 'AB':
                    for _ in range(h.get('g' + X, 0)):
                        part[X]['rv'].append(rv_record(ser['gap'])); part[X]['pid'].append(pid_record(ser['gap'])); ser['gap'] += 1
                    raw['npstart' + X][hi] = len(part[X]['rv'])
                    raw['npout' + X][hi] = h.get('n' + X, 0)
                    orig = []
                    for _ in range(h.get('n' + X, 0)):
                        part[X]['rv'].append(rv_record(ser[X])); part[X]['pid'].append(pid_record(ser[X])); orig.append(ser[X]); ser[X] += 1
                    for _ in range(h.get('j' + X, 0)):
                        mpart[X]['rv'].append(rv_record(ser['junk'])); mpart[X]['pid'].append(pid_record(ser['junk'])); ser['junk'] += 1
                    cl[f'npstart{X}_merge'][hi] = len(mpart[X]['rv'])
                    cl[f'npout{X}_merge'][hi] = h.get('m' + X, 0)
                    mer = []
                    for _ in range(h.get('m' + X, 0)):
                        mpart[X]['rv'].append(rv_record(ser['m' + X])); mpart[X]['pid'].append(pid_record(ser['m' + X])); mer.append(ser['m' + X]); ser['m' + X] += 1
                    m['orig' + X], m['merged' + X] = orig, mer
                N = 10 * (h.get('nA', 0) + h.get('nB', 0)) + 5 + hi
                Nm = 10 * (h.get('mA', 0) + h.get('mB', 0))
                raw['N'][hi] = N
                cl['N_merge'][hi] = Nm
                cl['N_total'][hi] = 0 if h.get('away') else N + Nm
                m['N'], m['N_total'] = N, int(cl['N_total'][hi])
                mod.append(m)
            # trailing unindexed records
            for X in ('AB' if self.trailing else ''):
                part[X]['rv'].append(rv_record(ser['gap'])); part[X]['pid'].append(pid_record(ser['gap'])); ser['gap'] += 1
                mpart[X]['rv'].append(rv_record(ser['junk'])); mpart[X]['pid'].append(pid_record(ser['junk'])); ser['junk'] += 1
            self.model.append(mod)
            grow += nh
            self.files[f'halos/{ZDIR}/halo_info/halo_info_{si:03d}.asdf'] = dict(header=self.header, data=raw)
            for X in 'AB':
                rv = np.array(part[X]['rv'], dtype=np.int32).reshape(-1, 3)
                pp = np.array(part[X]['pid'], dtype=np.uint64)
                self.files[f'halos/{ZDIR}/halo_rv_{X}/halo_rv_{X}_{si:03d}.asdf'] = dict(header=self.header, data=dict(rvint=rv))
                self.files[f'halos/{ZDIR}/halo_pid_{X}/halo_pid_{X}_{si:03d}.asdf'] = dict(header=self.header, data=dict(packedpid=pp))
            self.files[f'clean/cleaned_halo_info/cleaned_halo_info_{si:03d}.asdf'] = dict(header=self.clean_header, data=cl)
            self.files[f'clean/cleaned_rvpid/cleaned_rvpid_{si:03d}.asdf'] = dict(header=self.clean_header, data={
                f'rvint_{X}': np.array(mpart[X]['rv'], dtype=np.int32).reshape(-1, 3) for X in 'AB'} | {
                f'packedpid_{X}': np.array(mpart[X]['pid'], dtype=np.uint64) for X in 'AB'})

    # ---------------------------------------------------------------- expected ownership
    def expected(self, X, cleaned, slab_order=None, masks=None):
        """list over halo rows (file order) of the serial list the row must own in subsample X."""
        out = []
        order = range(len(self.model)) if slab_order is None else slab_order
        for k, s in enumerate(order):
            for hi, m in enumerate(self.model[s]):
                if masks is not None and not masks[k][hi]:
                    continue
                if cleaned:
                    own = ([] if m['away'] else list(m['orig' + X])) + list(m['merged' + X])
                else:
                    own = list(m['orig' + X])
                out.append((m, own))
        return out


# -------------------------------------------------------------------- asdf double
class FakeArr:
    """Stands for asdf's lazily loaded array: indexing reads (copies) from 'disk'."""

    def __init__(self, a):
        self._a = a
        self.shape = a.shape
        self.dtype = a.dtype

    def __len__(self):
        return len(self._a)

    def __getitem__(self, k):
        return np.array(self._a[k], copy=True)

    def __array__(self, dtype=None, copy=None):
        return np.array(self._a, dtype=dtype, copy=True)

    def __getattr__(self, k):          # ndim, size, nbytes, ... as asdf's lazily loaded arrays offer them
        if k.startswith('__'):
            raise AttributeError(k)
        return getattr(self._a, k)


class FakeAf:
    def __init__(self, node, uri):
        self.tree = dict(header=copy.deepcopy(node['header']),
                         data={k: FakeArr(v) for k, v in node['data'].items()})
        self.uri = uri
        self.closed = False

    def __getitem__(self, k):
        if self.closed:
            raise OSError('read from closed asdf double')
        return self.tree[k]

    def close(self):
        self.closed = True

    def keys(self):
        return self.tree.keys()

    def __contains__(self, k):
        return k in self.tree

    def __iter__(self):
        return iter(self.tree)

    def __enter__(self):
        return self

    def __exit__(self, *a):
        self.close()


class FakeAsdfModule:
    """Replaces the name `asdf` inside compaso_halo_catalog only."""

    def __init__(self):
        self.store = {}
        self.opens = 0
        self.enabled = True

    def open(self, fn, *a, **kw):
        p = os.path.abspath(str(fn))
        self.opens += 1
        if p not in self.store:
            raise FileNotFoundError(p)
        return FakeAf(self.store[p], p)


class NoGC:
    @staticmethod
    def collect(*a):
        return 0


class Env:
    """Per-process world: directory trees with placeholder files + patched module attributes."""

    def __init__(self, max_slabs=4):
        self.root = tempfile.mkdtemp(prefix='vfcat', dir='/dev/shm' if os.path.isdir('/dev/shm') else None)
        atexit.register(shutil.rmtree, self.root, True)
        import asdf as _asdf
        self.fake = FakeAsdfModule()
        # The double is installed on asdf.open itself, before the catalog module is imported, so that any reference the
        # module takes to it at import time (functools.partial, from-imports, aliases) is served as well; paths that
        # are not in the store go to the real asdf.open.
        if not hasattr(_asdf, '_vf_real_open'):
            _asdf._vf_real_open = _asdf.open
            _asdf._vf_stores = []

            def _open(fn, *a, **kw):
                try:
                    p = os.path.abspath(os.fspath(fn))
                except TypeError:
                    nm = getattr(fn, 'name', None)      # an open file object: served by the path it was opened from
                    if not isinstance(nm, str):
                        return _asdf._vf_real_open(fn, *a, **kw)
                    p = os.path.abspath(nm)
                for st in _asdf._vf_stores:
                    if st.enabled and p in st.store:
                        return st.open(p)
                return _asdf._vf_real_open(fn, *a, **kw)
            _asdf.open = _open
        _asdf._vf_stores.append(self.fake)
        from abacusnbody.data import compaso_halo_catalog as chc
        self.chc = chc
        try:
            chc.gc = NoGC           # speed only (4 x 75 ms per load otherwise); harmless if the module stops using gc
        except Exception:
            pass
        self._made = set()

    def tree(self, slab_ids, lc=False):
        key = (tuple(slab_ids), lc)
        d = os.path.join(self.root, 'T' + '_'.join(map(str, slab_ids)))
        if key not in self._made:
            for si in slab_ids:
                for rel in [f'{SIM}/halos/{ZDIR}/halo_info/halo_info_{si:03d}.asdf',
                            f'cleaning/{SIM}/{ZDIR}/cleaned_halo_info/cleaned_halo_info_{si:03d}.asdf',
                            f'cleaning/{SIM}/{ZDIR}/cleaned_rvpid/cleaned_rvpid_{si:03d}.asdf'] + [
                            f'{SIM}/halos/{ZDIR}/halo_{k}_{X}/halo_{k}_{X}_{si:03d}.asdf' for k in ('rv', 'pid') for X in 'AB']:
                    p = os.path.join(d, rel)
                    os.makedirs(os.path.dirname(p), exist_ok=True)
                    open(p, 'w').close()
            self._made.add(key)
        return d

    def mount(self, cat):
        """Serve `cat` and return (redshift dir, list of halo_info paths in slab order)."""
        d = self.tree(cat.slab_ids)
        self.fake.store = {}
        self._tick = getattr(self, '_tick', 10 ** 18) + 10 ** 6
        for rel, node in cat.files.items():
            if rel.startswith('halos/'):
                p = os.path.join(d, SIM, rel)
            else:
                p = os.path.join(d, 'cleaning', SIM, ZDIR, rel[len('clean/'):])
            self.fake.store[os.path.abspath(p)] = node
            try:
                os.utime(p, ns=(self._tick, self._tick))      # another catalog under the same path is a changed file (stat-validated caches)
            except OSError:
                pass
        zdir = os.path.join(d, SIM, 'halos', ZDIR)
        fns = [os.path.join(zdir, 'halo_info', f'halo_info_{si:03d}.asdf') for si in cat.slab_ids]
        return zdir, fns

    def load(self, path, **kw):
        import warnings
        with warnings.catch_warnings():
            warnings.simplefilter('ignore')
            return self.chc.CompaSOHaloCatalog(path, **kw)


class LCCatalog:
    """Halo light-cone layout: one lc_halo_info.asdf + one lc_pid_rv.asdf (already decoded pos/vel/pid),
    indexed by the stored npstartA/npoutA.  halos: list of dict(nA=..., gA=...)."""

    LCDIR = 'halo_light_cones'

    def __init__(self, halos, box=2000.0, velz=208774.9, ppd=6912.0):
        self.halos = halos
        self.box = box
        self.header = dict(BoxSize=box, VelZSpace_to_kms=velz, ppd=ppd, SimName=SIM, Redshift=0.5, SimSet='AbacusSummit',
                           OutputType='GroupOutput', ParticleSubsampleA=0.03, ParticleSubsampleB=0.07,
                           TimeSliceRedshiftsPrev=[0.8, 1.1])
        nh = len(halos)
        rows = np.arange(nh)
        raw = {k: v for k, v in fill_values(raw_layout(), rows).items() if 'L2' in k}
        lc = [('N', 'u4', ()), ('N_interp', 'u4', ()), ('npstartA', 'u8', ()), ('npoutA', 'u4', ()), ('index_halo', 'i8', ()),
              ('origin', 'i1', ()), ('pos_avg', 'f4', (3,)), ('pos_interp', 'f4', (3,)), ('vel_avg', 'f4', (3,)),
              ('vel_interp', 'f4', (3,)), ('redshift_interp', 'f4', ()), ('haloindex', 'u8', ())]
        for name, dt, tail in lc:
            n = int(np.prod(tail)) if tail else 1
            raw[name] = ((np.arange(nh * n).reshape((nh,) + tuple(tail)) * 3 + (_h(name) % 50)) % (100 if dt == 'i1' else 10 ** 6)).astype(dt)
        raw['pos_avg'][::2] = 0      # rows without averaged positions fall back to the interpolated ones
        ser = BASE['A']
        gap = BASE['gap']
        pos, vel, pid = [], [], []
        self.model = []

        def rec(s):
            p, v = refs.rvint_ref(rv_record(s), box)
            pos.append(p.astype(np.float32)); vel.append(v.astype(np.float32))
            pid.append(np.int64(refs.pid_ref(np.array([pid_record(s)], dtype=np.uint64))['pid'][0]))
        for hi, h in enumerate(halos):
            for _ in range(h.get('gA', 0)):
                rec(gap); gap += 1
            raw['npstartA'][hi] = len(pos)
            raw['npoutA'][hi] = h.get('nA', 0)
            own = []
            for _ in range(h.get('nA', 0)):
                rec(ser); own.append(ser); ser += 1
            self.model.append(own)
        rec(gap)
        self.files = {'lc_halo_info.asdf': dict(header=self.header, data=raw),
                      'lc_pid_rv.asdf': dict(header=self.header, data=dict(pos=np.array(pos, dtype=np.float32).reshape(-1, 3),
                                                                          vel=np.array(vel, dtype=np.float32).reshape(-1, 3),
                                                                          pid=np.array(pid, dtype=np.int64)))}


def mount_lc(env, cat):
    d = os.path.join(env.root, 'LC', LCCatalog.LCDIR, SIM, ZDIR)
    os.makedirs(d, exist_ok=True)
    env.fake.store = {}
    for name, node in cat.files.items():
        p = os.path.join(d, name)
        if not os.path.exists(p):
            open(p, 'w').close()
        env.fake.store[os.path.abspath(p)] = node
    return d


def write_real(cat, root, compression=None):
    """Conformance: the same catalog as real ASDF files under root; returns the redshift dir."""
    import asdf
    for rel, node in cat.files.items():
        if rel.startswith('halos/'):
            p = os.path.join(root, SIM, rel)
        else:
            p = os.path.join(root, 'cleaning', SIM, ZDIR, rel[len('clean/'):])
        os.makedirs(os.path.dirname(p), exist_ok=True)
        af = asdf.AsdfFile(dict(header=copy.deepcopy(node['header']),
                                data={k: np.ascontiguousarray(v) for k, v in node['data'].items()}))
        if compression:
            af.write_to(p, all_array_compression=compression)
        else:
            af.write_to(p)
    return os.path.join(root, SIM, 'halos', ZDIR)

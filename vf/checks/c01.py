"""C01 - each halo row indexes exactly its own subsample particles.

Exhaustive over catalogs built from a per-halo variant alphabet (sequences of <= H halos in each of <= S
superslabs) x loader options, on the real CompaSOHaloCatalog with asdf.open replaced by an in-memory double.
Oracle: catalog_model (vf.catgen.Catalog.expected) - ordered list of record identities each row must own.
"""
import itertools
import os
import numpy as np

PID = 'C01'
LEVEL = 'exploration'
RULE = ('catalogs = all sequences of <=H halos per superslab over a 6/18-variant halo alphabet (particle counts 0-2, '
        'L0 gaps, merged ranges with junk gaps, cleaned-away) for <=S superslabs; x core options (cleaned x {A,B,A+B}); '
        'rich catalogs x all options (field subsets, unpack_bits, passthrough, path forms); '
        'non-trivial = distinct catalogs containing >=1 gap, >=1 merged range and >=1 zero-length slice')
ASSUMPTIONS = ['asdf.open inside compaso_halo_catalog is served by an in-memory double (validated by the real-ASDF conformance cases)',
               'gc.collect is a no-op', 'record identity is carried in the RVint position bits / PID index bits']
CHUNK = 16

# halo variants: particle counts / gaps / merged / away
V6 = [
    dict(nA=0, nB=0),
    dict(nA=1, nB=2, gA=1),
    dict(nA=2, nB=1, mA=2, mB=1, jA=1),
    dict(nA=1, nB=1, away=True),
    dict(nA=0, nB=1, gB=1, mA=1, jB=1),
    dict(nA=2, nB=0, gA=1, gB=1, away=True),
    dict(nA=0, nB=0, mA=1, mB=2),          # 6: only merged particles
    dict(nA=0, nB=0, mA=2, mB=0, jA=1),    # 7: only merged A particles behind junk
]


def v18():
    out = []
    for n in (0, 1, 2):
        for g in (0, 1):
            for (m, away) in ((0, False), (2, False), (0, True)):
                out.append(dict(nA=n, nB=(n + 1) % 3, gA=g, gB=1 - g, mA=m, mB=(m + 1) % 3 if m else 0,
                                jA=g, jB=0, away=away))
    return out


V18 = v18()

CORE_OPTS = [dict(cleaned=c, AB=ab) for c in (True, False) for ab in ('A', 'B', 'AB', 'BA')]   # 'BA': B named first in the user's dict


def rich_opts():
    o = []
    for c in (True, False):
        for ab in ('A', 'B', 'AB'):
            for which in (['pos'], ['vel'], ['pid'], ['pos', 'vel'], ['pos', 'pid'], ['vel', 'pid'], ['rv'], []):
                o.append(dict(cleaned=c, AB=ab, which=which))
            for ub in (True, 'pid', 'lagr_pos', 'tagged', 'density', 'lagr_idx', ['lagr_idx', 'density']):
                o.append(dict(cleaned=c, AB=ab, which=['pos', 'pid'], unpack_bits=ub))
            o.append(dict(cleaned=c, AB=ab, passthrough=True))
            o.append(dict(cleaned=c, AB=ab, passthrough=True, fields=['id']))       # explicit raw column list: the index columns must still be found
            for path in ('file0', 'file_last', 'list', 'list_rev', 'list_tail', 'hinfo'):
                o.append(dict(cleaned=c, AB=ab, path=path))
        o.append(dict(cleaned=c, subs=True))
        o.append(dict(cleaned=c, subs=True, passthrough=True))
        o.append(dict(cleaned=c, AB='AB', fields='all'))
    return o


def seqs(nv, H):
    for h in range(H + 1):
        yield from itertools.product(range(nv), repeat=h)


def cases(tier, seed):
    S, H = (2, 2) if tier == 'quick' else (3, 2)
    per = list(seqs(6, H))   # (variants 6, 7 are used by the dedicated empty-file catalogs only)
    for s in range(1, S + 1):
        for combo in itertools.product(per, repeat=s):
            yield dict(kind='core', alpha=6, slabs=[list(c) for c in combo])
    # all 18 variants: one slab H<=2 (quick) / H<=3 (thorough); two slabs H<=1
    H18 = 2 if tier == 'quick' else 3
    for c in seqs(18, H18):
        yield dict(kind='core', alpha=18, slabs=[list(c)])
    for a in range(18):
        for b in range(18):
            yield dict(kind='core', alpha=18, slabs=[[a], [b]])
    # rich catalogs x all options
    rich = [[[1, 2], [4, 3]], [[2, 0, 5], [1]], [[], [2, 4]], [[3, 2], []], [[4], [5], [2]], [[0], [0]],
            [[2, 2, 2]], [[5, 4, 3, 2, 1, 0]]]
    for r in rich:
        yield dict(kind='rich', alpha=6, slabs=r)
    # superslabs whose original particle files are EMPTY while their halos have merged-in particles (no trailing records)
    for r in ([[6, 6], [2]], [[6], [6, 7]], [[7, 6, 6]], [[2, 1], [6]]):
        yield dict(kind='rich', alpha=6, slabs=r, trailing=False)
    # more halos than 2^16 in one superslab (index widths), thorough only
    if tier != 'quick':
        yield dict(kind='core', alpha=6, slabs=[[1, 2, 4] * 22000, [2, 1]])
    # halo light-cone layout: all sequences of <=3 halos over (count, gap) variants x all row masks x subsample options
    lcv = [(0, 0), (1, 0), (2, 1), (1, 1)] if tier == 'quick' else [(0, 0), (1, 0), (2, 1), (1, 1), (3, 0), (0, 1)]
    for n in range(0, 4):
        for combo in itertools.product(range(len(lcv)), repeat=n):
            yield dict(kind='lc', halos=[lcv[i] for i in combo])
    # conformance through real ASDF files
    nconf = 4 if tier == 'quick' else 16
    for r in (rich * 2)[:nconf]:
        yield dict(kind='real', alpha=6, slabs=r)
    for r in rich[:2 if tier == 'quick' else 8]:
        yield dict(kind='real', alpha=6, slabs=r, comp='blsc')


_ENV = None


def worker_init():
    global _ENV
    from vf import catgen
    _ENV = catgen.Env()


def subs_arg(o):
    if o.get('subs') is True:
        return True
    d = {k: True for k in o.get('AB', 'A')}
    if o.get('passthrough'):
        d.update(rvint=True, packedpid=True)
        return d
    which = o.get('which', ['pos', 'pid'])
    for w in which:
        d[w] = True
    return d


def check_load(cat, c, o, slab_order=None, masks=None):
    """Oracle for one loaded catalog object `c`; returns list of problem strings."""
    from vf import catgen, refs
    probs = []
    cleaned = o['cleaned']
    if o.get('subs') is True:
        AB = 'AB'
    else:
        AB = o.get('AB', 'A')
    sub = c.subsamples
    cols = set(sub.colnames)
    box = cat.box
    start = 0
    nrows = None
    for X in sorted(AB):      # all of A before all of B, whatever order the user named them in
        exp = cat.expected(X, cleaned, slab_order, masks)
        if nrows is None:
            nrows = len(exp)
        if len(c.halos) != len(exp):
            return [f'halo rows {len(c.halos)} != expected {len(exp)}']
        st = np.asarray(c.halos['npstart' + X]).astype(np.int64)
        no = np.asarray(c.halos['npout' + X]).astype(np.int64)
        for r, (m, own) in enumerate(exp):
            if st[r] != start:
                probs.append(f'{X} row {r}: npstart {st[r]} != contiguous {start}')
                return probs
            if no[r] != len(own):
                probs.append(f'{X} row {r} (halo slab {m["slab"]} id {m["id"]}): npout {no[r]} != {len(own)} owned')
                return probs
            sl = slice(int(st[r]), int(st[r] + no[r]))
            if sl.stop > len(sub):
                probs.append(f'{X} row {r}: slice {sl} beyond subsample table {len(sub)}')
                return probs
            if own:
                recs = np.array([catgen.rv_record(s) for s in own], dtype=np.int32).reshape(-1, 3)
                pids = np.array([catgen.pid_record(s) for s in own], dtype=np.uint64)
                rpos, rvel = refs.rvint_ref(recs, box)
                pr = refs.pid_ref(pids, box, int(cat.ppd))
                if 'pos' in cols:
                    got = np.asarray(sub['pos'][sl], dtype=np.float64)
                    if not refs.ulp_close(got, rpos, 2, np.float32).all():
                        ser = [catgen.serial_of_pos_x(x, box) for x in got[:, 0]]
                        probs.append(f'{X} row {r}: pos names records {ser}, expected {own}')
                if 'vel' in cols:
                    got = np.asarray(sub['vel'][sl], dtype=np.float64)
                    if not refs.ulp_close(got, rvel, 2, np.float32).all():
                        probs.append(f'{X} row {r}: vel {got.tolist()} expected {rvel.tolist()} (records {own})')
                if 'rvint' in cols:
                    if not np.array_equal(np.asarray(sub['rvint'][sl]), recs):
                        probs.append(f'{X} row {r}: rvint passthrough mismatch, expected records {own}')
                if 'packedpid' in cols:
                    if not np.array_equal(np.asarray(sub['packedpid'][sl]), pids):
                        probs.append(f'{X} row {r}: packedpid mismatch, expected records {own}')
                if 'pid' in cols:
                    got = np.asarray(sub['pid'][sl])
                    if not np.array_equal(got, pr['pid']):
                        probs.append(f'{X} row {r}: pid names {[catgen.serial_of_pid(p) for p in got]}, expected {own}')
                if 'lagr_idx' in cols and not np.array_equal(np.asarray(sub['lagr_idx'][sl]), pr['lagr_idx']):
                    probs.append(f'{X} row {r}: lagr_idx mismatch')
                if 'lagr_pos' in cols and not refs.ulp_close(np.asarray(sub['lagr_pos'][sl]), pr['lagr_pos'], 4, np.float32).all():
                    probs.append(f'{X} row {r}: lagr_pos mismatch')
                if 'tagged' in cols and not np.array_equal(np.asarray(sub['tagged'][sl]), pr['tagged']):
                    probs.append(f'{X} row {r}: tagged mismatch')
                if 'density' in cols and not np.array_equal(np.asarray(sub['density'][sl]), pr['density']):
                    probs.append(f'{X} row {r}: density mismatch')
            start += len(own)
            if probs:
                return probs
    if AB and len(sub) != start:
        probs.append(f'subsample table length {len(sub)} != sum of slices {start}')
    return probs


def expect_cols(o):
    if o.get('passthrough'):
        return {'rvint', 'packedpid'}
    if o.get('subs') is True:
        return {'pos', 'vel', 'pid'}
    which = o.get('which', ['pos', 'pid'])
    s = set()
    for w in which:
        s |= {'pos', 'vel'} if w == 'rv' else {w}
    if not which:
        s = {'pos', 'vel'}
    ub = o.get('unpack_bits', False)
    if 'pid' in s and ub is not False:
        s.discard('pid')
        if ub is True:
            s |= {'pid', 'lagr_pos', 'tagged', 'density', 'lagr_idx', 'packedpid'}  # documented: True unpacks every PID_FIELDS entry
        elif isinstance(ub, str):
            s |= {ub}
        else:
            s |= set(ub)
    return s


def run_lc(case, with_masks=False):
    """light-cone layout: the slice addressed by the stored npstartA/npoutA of every (kept) row holds that halo's records"""
    from vf import catgen, refs
    halos = [dict(nA=n, gA=g) for n, g in case['halos']]
    if not halos:
        return dict(problems=[], evals=0, nt=[])
    cat = catgen.LCCatalog(halos)
    d = catgen.mount_lc(_ENV, cat)
    probs = []
    nl = 0
    H = len(halos)
    subs = [dict(A=True, pos=True), dict(A=True, pos=True, vel=True, pid=True), True, dict(A=True, pid=True), dict(B=True, A=True, rv=True)]
    for si, sub in enumerate(subs):
        for fields in (['N', 'npstartA', 'npoutA'], 'DEFAULT_FIELDS', ['npoutA', 'npstartA', 'pos_interp', 'x_L2com']):
            for mask in [None] + (list(itertools.product((True, False), repeat=H)) if with_masks else []):
                if mask is not None and (si > 1 or fields == 'DEFAULT_FIELDS'):
                    continue
                filt = None
                if mask is not None:
                    filt = (lambda h, m=mask: np.array(m, dtype=bool))
                try:
                    c = _ENV.load(d, subsamples=(dict(sub) if isinstance(sub, dict) else sub), fields=fields if isinstance(fields, str) else list(fields), filter_func=filt)
                except Exception as e:
                    import traceback
                    probs.append(dict(sig='lc:load-raises:' + type(e).__name__, msg=f'halos={case["halos"]} subs={sub} fields={fields} mask={mask}: ' + ''.join(traceback.format_exception(e))[-900:]))
                    continue
                nl += 1
                if not c.halo_lc:
                    probs.append(dict(sig='lc:not-detected', msg='light-cone layout not detected from the path'))
                kept = [i for i in range(H) if mask is None or mask[i]]
                if len(c.halos) != len(kept):
                    probs.append(dict(sig='lc:rows', msg=f'{len(c.halos)} rows, expected {len(kept)}'))
                    continue
                st = np.asarray(c.halos['npstartA']).astype(np.int64)
                no = np.asarray(c.halos['npoutA']).astype(np.int64)
                for r, hi in enumerate(kept):
                    own = cat.model[hi]
                    sl = slice(int(st[r]), int(st[r] + no[r]))
                    if no[r] != len(own) or sl.stop > len(c.subsamples):
                        probs.append(dict(sig='lc:ownership', msg=f'halos={case["halos"]} subs={sub} mask={mask} row {r}: npout {no[r]} vs {len(own)} owned, table {len(c.subsamples)}'))
                        break
                    if 'pos' in c.subsamples.colnames and own:
                        ser = [catgen.serial_of_pos_x(x, cat.box) for x in np.asarray(c.subsamples['pos'][sl])[:, 0]]
                        if ser != own:
                            probs.append(dict(sig='lc:ownership', msg=f'halos={case["halos"]} subs={sub} mask={mask} row {r}: pos names {ser}, expected {own}'))
                            break
                    if 'pid' in c.subsamples.colnames and own:
                        ser = [catgen.serial_of_pid(p) for p in np.asarray(c.subsamples['pid'][sl])]
                        if ser != own:
                            probs.append(dict(sig='lc:ownership', msg=f'halos={case["halos"]} subs={sub} mask={mask} row {r}: pid names {ser}, expected {own}'))
                            break
                    if 'vel' in c.subsamples.colnames and own:
                        rv = np.array([catgen.rv_record(s) for s in own], dtype=np.int32).reshape(-1, 3)
                        if not refs.ulp_close(np.asarray(c.subsamples['vel'][sl]), refs.rvint_ref(rv, cat.box)[1], 2, np.float32).all():
                            probs.append(dict(sig='lc:ownership', msg=f'row {r}: vel mismatch'))
                            break
    seen = set()
    probs = [p for p in probs if not (p['sig'] in seen or seen.add(p['sig']))]
    nt = [('lc', case['halos'])] if any(g for n, g in case['halos']) and any(n == 0 for n, g in case['halos']) else []
    return dict(problems=probs, evals=nl, nt=nt, extra=dict(lc_loads=nl))


def run(case):
    from vf import catgen
    if case['kind'] == 'lc':
        return run_lc(case)
    alpha = V6 if case['alpha'] == 6 else V18
    slabs = [[alpha[i] for i in s] for s in case['slabs']]
    cat = catgen.Catalog(slabs, trailing=case.get('trailing', True))
    probs = []
    nloads = 0
    rows = 0
    if case['kind'] == 'real':
        return run_real(case, cat)
    zdir, fns = _ENV.mount(cat)
    opts = CORE_OPTS if case['kind'] == 'core' else rich_opts()
    for o in opts:
        path, order = zdir, None
        pf = o.get('path')
        if pf == 'file0':
            path, order = fns[0], [0]
        elif pf == 'file_last':
            path, order = fns[-1], [len(fns) - 1]
        elif pf == 'list_tail':
            path, order = list(fns[1:]) or list(fns), (list(range(1, len(fns))) or [0])
        elif pf == 'list':
            path = list(fns)
        elif pf == 'list_rev':
            path, order = list(fns[::-1]), list(range(len(fns)))[::-1]
        elif pf == 'hinfo':
            path = os.path.join(zdir, 'halo_info')
        kw = dict(cleaned=o['cleaned'], subsamples=subs_arg(o), fields=o.get('fields', ['N']))
        if 'unpack_bits' in o:
            kw['unpack_bits'] = o['unpack_bits']
        if o.get('passthrough'):
            kw['passthrough'] = True
            kw['fields'] = o.get('fields', 'all')
        try:
            c = _ENV.load(path, **kw)
        except Exception as e:
            import traceback
            probs.append(dict(sig='load-raises:' + type(e).__name__,
                              msg=f'opts={o}: {"".join(traceback.format_exception(e))[-1200:]}'))
            continue
        nloads += 1
        rows += len(c.halos)
        ps = check_load(cat, c, o, order)
        got_cols = set(c.subsamples.colnames)
        if got_cols != expect_cols(o):
            ps.append(f'subsample columns {sorted(got_cols)} != requested {sorted(expect_cols(o))}')
        for p in ps[:1]:
            probs.append(dict(sig='ownership:' + ('cleaned' if o['cleaned'] else 'raw') + (':passthrough' if o.get('passthrough') else ''),
                              msg=f'opts={o}: {p}'))
    flat = [h for s in slabs for h in s]
    nt = []
    if (any(h.get('gA') or h.get('gB') for h in flat) and any(h.get('mA') or h.get('mB') for h in flat)
            and any(h.get('nA', 0) == 0 or h.get('nB', 0) == 0 or h.get('away') for h in flat)):
        nt = [(case['alpha'], case['slabs'])]
    return dict(problems=probs, evals=nloads, nt=nt, extra=dict(loads=nloads, halo_rows_checked=rows),
                sample=dict(case=case, first_options=opts[0]) if case['slabs'] == [[1, 2], [4, 3]] else None)


def run_real(case, cat):
    """Conformance of the asdf double: same catalog through real files and the real asdf.open."""
    import tempfile, shutil, importlib, warnings
    import asdf as real_asdf
    from vf import catgen
    chc = _ENV.chc
    probs = []
    d = tempfile.mkdtemp(prefix='vfreal', dir='/dev/shm')
    n = 0
    try:
        comp = case.get('comp')
        if comp == 'blsc':
            patch_asdf_compress()
        zdir = catgen.write_real(cat, d, compression=comp)
        fzdir, _ = _ENV.mount(cat)
        for o in CORE_OPTS:
            kw = dict(cleaned=o['cleaned'], subsamples=subs_arg(o), fields=['N', 'x_com', 'r50_L2com'])
            cf = _ENV.load(fzdir, **kw)
            _ENV.fake.enabled = False          # every path goes to the real asdf.open
            try:
                with warnings.catch_warnings():
                    warnings.simplefilter('ignore')
                    cr = chc.CompaSOHaloCatalog(zdir, **dict(kw, subsamples=subs_arg(o)))
            finally:
                _ENV.fake.enabled = True
            n += 1
            for tname in ('halos', 'subsamples'):
                tf, tr = getattr(cf, tname), getattr(cr, tname)
                if tf.colnames != tr.colnames or len(tf) != len(tr):
                    probs.append(dict(sig='double-vs-real', msg=f'{tname}: {tf.colnames}/{len(tf)} vs {tr.colnames}/{len(tr)} opts={o}'))
                    continue
                for col in tf.colnames:
                    if not np.array_equal(np.asarray(tf[col]), np.asarray(tr[col]), equal_nan=True):
                        probs.append(dict(sig='double-vs-real', msg=f'{tname}.{col} differs between double and real asdf, opts={o}'))
            for p in check_load(cat, cr, o)[:1]:
                probs.append(dict(sig='ownership:real-asdf', msg=f'opts={o}: {p}'))
    finally:
        shutil.rmtree(d, ignore_errors=True)
    return dict(problems=probs, evals=n, traces=n, extra=dict(real_asdf_loads=n))


def patch_asdf_compress():
    from vf import asdfpatch
    asdfpatch.patch()

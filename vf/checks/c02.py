"""C02 - a halo column's values do not depend on what else was requested.

Differential, exhaustive over field lists drawn from the complete set of valid column names:
every single column, every ordered pair (c, d) [quick: d from a probe set with one column per dtype/shape/loader
kind; thorough: all ordered pairs], every subset and order inside each dependency cluster, 'all', the default -
for cleaned on/off x subsamples off/A.  Reference: the same column from the fields='all' load.
"""
import itertools
import numpy as np

PID = 'C02'
LEVEL = 'exploration'
RULE = ('field lists: all singles, ordered pairs (quick: x 14 probe columns, thorough: all), all ordered subsets of each '
        'derived-column cluster, "all", default; x cleaned on/off x subsamples off/A/A+B(pid); the same with passthrough=True over the raw column names; 2 superslabs x 3 halos; '
        'non-trivial = distinct (config, field list) with >=2 fields or a derived column')
ASSUMPTIONS = ['asdf.open served by the in-memory double (validated in C01 conformance cases)',
               "the fields='all' load is the reference for each column (its unit correctness is C05's subject)"]
CHUNK = 24

PROBES = ['id', 'N', 'L2_N', 'x_com', 'r100_L2com', 'sigmav3d_com', 'r25_com', 'sigmavMid_L2com', 'sigmavMin_com',
          'sigmar_com', 'sigman_eigenvecsMid_com', 'npstartA', 'npoutB', 'SO_radius']
CLEAN_PROBES = ['N_total', 'npstartA_merge', 'haloindex', 'N_mainprog', 'v_L2com_mainprog', 'is_merged_to']

CONFIGS = [dict(cleaned=c, subs=s) for c in (True, False) for s in ('off', 'A', 'ABpid')]
# passthrough=True ("just load the raw data; subsample indices, filter_func and cleaning still applied"): the valid column names
# are the raw columns of the files
CONFIGS += [dict(cleaned=c, subs=s, passthrough=True) for c in (True, False) for s in ('off', 'A', 'ABpid')]
PT_PROBES = ['id', 'N', 'x_com', 'sigmav_eigenvecs_com_u16', 'npstartA', 'npoutB']
PT_CLEAN_PROBES = ['N_total', 'npstartA_merge', 'haloindex']


def pt_field_lists(tier, cleaned):
    from vf import catgen
    nm = [n for n, _, _ in catgen.raw_layout()] + ([n for n, _, _ in catgen.clean_layout()] if cleaned else [])
    for c in nm:
        yield [c]
    probes = PT_PROBES + (PT_CLEAN_PROBES if cleaned else [])
    for c in (nm if tier == 'thorough' else nm[:12] + (nm[-13:] if cleaned else [])):
        for d in probes:
            if c != d:
                yield [c, d]
                yield [d, c]
    yield ['npstartA', 'npoutA', 'npstartB', 'npoutB']
    yield 'all'


def names(cleaned):
    from abacusnbody.data import compaso_halo_catalog as chc
    n = list(chc.user_dt.names)
    if cleaned:
        # documented cleaned columns (clean_dt) plus the main-progenitor columns that fields='all' adds; the private table
        # clean_dt_progen is used when present, else the documented names
        prog = getattr(chc, 'clean_dt_progen', None)
        extra = list(prog.names) if prog is not None else list(chc.clean_dt.names) + ['N_mainprog', 'vcirc_max_L2com_mainprog', 'sigmav3d_L2com_mainprog']
        n += [x for x in dict.fromkeys(extra)]
    return n


def clusters():
    cl = []
    for com in ('com', 'L2com'):
        cl.append([f'sigmav{w}_{com}' for w in ('Min', 'Mid', 'Maj')])
        for rnv in 'rnv':
            cl.append([f'sigma{rnv}_eigenvecs{w}_{com}' for w in ('Min', 'Mid', 'Maj')])
    return cl


def field_lists(tier, cleaned):
    nm = names(cleaned)
    for c in nm:
        yield [c]
    probes = PROBES + (CLEAN_PROBES if cleaned else [])
    others = nm if tier == 'thorough' else probes
    for c in nm:
        for d in others:
            if c != d:
                yield [c, d]
                if tier != 'thorough':
                    yield [d, c]
    pairs = [['npstartA', 'npoutA'], ['npstartB', 'npoutB'], ['npstartA', 'npoutA', 'npstartB', 'npoutB']]
    if cleaned:
        pairs += [['npstartA_merge', 'npoutA_merge'], ['npstartB_merge', 'npoutB_merge'], ['npstartA', 'npoutA', 'npstartA_merge'],
                  ['npstartA', 'npoutA', 'npoutA_merge'], ['npstartB', 'npoutB', 'npstartB_merge', 'npoutB_merge']]
    for pr in pairs:                      # the subsample index columns, complete and incomplete groups, every order
        for k in range(2, min(len(pr), 3) + 1):
            for p in itertools.permutations(pr, k):
                yield list(p)
        yield list(pr)
    for cl in clusters():
        for k in (2, 3):
            for p in itertools.permutations(cl, k):
                yield list(p)
        # cluster members with an unrelated neighbour in between
        yield [cl[1], 'id', cl[0]]
        yield [cl[1], 'N']
    yield 'all'
    yield 'DEFAULT_FIELDS'


def cases(tier, seed):
    for ci, cfg in enumerate(CONFIGS):
        seen = set()
        for fl in (pt_field_lists if cfg.get('passthrough') else field_lists)(tier, cfg['cleaned']):
            k = repr(fl)
            if k in seen:
                continue
            seen.add(k)
            yield dict(cfg=ci, fields=fl)


_ENV = None
_CAT = None
_REF = {}


def worker_init():
    global _ENV, _CAT
    from vf import catgen
    from vf.checks import c01
    _ENV = catgen.Env()
    V = c01.V6
    _CAT = catgen.Catalog([[V[1], V[2], V[3]], [V[4], V[0], V[2]]])


def PT(cfg):
    return dict(passthrough=True) if cfg.get('passthrough') else {}


def subs_arg(s, passthrough=False):
    if passthrough:     # nothing is unpacked in passthrough mode: only which subsample sets to load is said
        return {'off': False, 'A': dict(A=True), 'ABpid': dict(A=True, B=True)}[s]
    return {'off': False, 'A': dict(A=True, pos=True), 'ABpid': dict(A=True, B=True, pid=True)}[s]


def ref(ci):
    if ci not in _REF:
        cfg = CONFIGS[ci]
        zdir, _ = _ENV.mount(_CAT)
        c = _ENV.load(zdir, cleaned=cfg['cleaned'], subsamples=subs_arg(cfg['subs'], cfg.get('passthrough')), fields='all', **PT(cfg))
        _REF[ci] = {k: np.array(c.halos[k]) for k in c.halos.colnames}
    return _REF[ci]


DERIVED = ('sigmav', 'eigenvecs', 'r10', 'r25', 'r33', 'r50', 'r67', 'r75', 'r90', 'r95', 'r98', 'sigmar', 'sigman', 'rvcirc')


def run(case):
    import traceback
    ci = case['cfg']
    cfg = CONFIGS[ci]
    fl = case['fields']
    probs = []
    try:
        R = ref(ci)
    except Exception as e:
        return dict(problems=[dict(sig='all-load-raises:' + type(e).__name__, msg=''.join(traceback.format_exception(e))[-1500:])])
    zdir, _ = _ENV.mount(_CAT)
    fields = list(fl) if isinstance(fl, list) else fl
    try:
        c = _ENV.load(zdir, cleaned=cfg['cleaned'], subsamples=subs_arg(cfg['subs'], cfg.get('passthrough')), fields=fields, **PT(cfg))
        if isinstance(fl, list):
            # the same list object used for a second load (the usual way to load several catalogs) must give the same table
            c2 = _ENV.load(zdir, cleaned=cfg['cleaned'], subsamples=subs_arg(cfg['subs'], cfg.get('passthrough')), fields=fields, **PT(cfg))
            missing = [x for x in fl if x not in c2.halos.colnames and not (cfg['cleaned'] and not cfg.get('passthrough') and x in ('N', 'N_total')) and x in R]
            if missing:
                probs.append(dict(sig='second-load-with-same-list-differs', msg=f'cfg={cfg} fields={fl}: second load with the same list object lacks {missing}'))
            elif c2.halos.colnames != c.halos.colnames or any(not np.array_equal(np.asarray(c2.halos[k]), np.asarray(c.halos[k]), equal_nan=True) for k in c.halos.colnames):
                probs.append(dict(sig='second-load-with-same-list-differs', msg=f'cfg={cfg} fields={fl}: columns {c.halos.colnames} then {c2.halos.colnames}'))
    except Exception as e:
        tb = traceback.extract_tb(e.__traceback__)
        where = next((f.name for f in reversed(tb) if 'compaso_halo_catalog' in f.filename), '?')
        return dict(problems=[dict(sig=f'request-raises:{type(e).__name__}:{where}',
                                   msg=f'cfg={cfg} fields={fl}: ' + ''.join(traceback.format_exception(e))[-1200:])],
                    nt=[(ci, fl)])
    want = fl if isinstance(fl, list) else (list(R) if fl == 'all' else list(c.halos.colnames))
    for col in want:
        name = col
        if cfg['cleaned'] and not cfg.get('passthrough') and col in ('N_total', 'N'):      # (cleaned loads present N_total as N; passthrough keeps the raw names)
            name = 'N'
        if name not in R:
            continue   # the 'all' load of this configuration does not return it either (re-indexed away)
        if name not in c.halos.colnames:
            probs.append(dict(sig='column-missing', msg=f'cfg={cfg} fields={fl}: requested column {col} not in result {c.halos.colnames}'))
            continue
        got = np.array(c.halos[name])
        exp = R[name]
        if got.dtype != exp.dtype or got.shape != exp.shape or not np.array_equal(got, exp, equal_nan=True):
            probs.append(dict(sig='value-depends-on-request:' + ('derived' if any(t in col for t in DERIVED) else 'plain'),
                              msg=f'cfg={cfg} fields={fl}: column {col} dtype {got.dtype}/{exp.dtype} shape {got.shape}/{exp.shape}\n got {got.tolist()[:3]}\n all {exp.tolist()[:3]}'))
    # index columns must agree across subsample configs only within the same config; all other columns also
    # with the subsample-free reference
    if cfg['subs'] != 'off':
        R0 = ref((0 if cfg['cleaned'] else 3) + (6 if cfg.get('passthrough') else 0))
        for col in want:
            name = 'N' if (cfg['cleaned'] and not cfg.get('passthrough') and col in ('N_total', 'N')) else col
            if name.startswith(('npstart', 'npout')) or name not in c.halos.colnames or name not in R0:
                continue
            if not np.array_equal(np.array(c.halos[name]), R0[name], equal_nan=True):
                probs.append(dict(sig='value-depends-on-subsamples', msg=f'cfg={cfg} fields={fl}: column {col} differs from the subsample-free load'))
    nt = [(ci, fl)] if (isinstance(fl, str) or len(fl) >= 2 or any(t in fl[0] for t in DERIVED)) else []
    return dict(problems=probs, nt=nt, sample=dict(cfg=cfg, fields=fl) if fl == ['sigmavMid_com', 'id', 'sigmavMin_com'] and ci == 0 else None)

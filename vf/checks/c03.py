"""C03 - superslab concatenation and filter_func commute with loading.

Exhaustive: catalogs (halo-variant sequences per superslab) x every non-empty ordered file subset / single file /
directory x every row mask per superslab (delivered by a recording filter function) x cleaned x subsample
selection, field subsets rotating.  Oracles: ownership model (C01's) with masks and file order; differential
equality of halo rows with the masked single-file loads; what the filter was shown.
"""
import itertools
import os
import numpy as np

PID = 'C03'
LEVEL = 'exploration'
RULE = ('catalogs = sequences of <=H halos per superslab over a 3-variant alphabet, <=S superslabs; selections = all ordered '
        'non-empty file subsets + directory; masks = all 2^n row masks of the selection (cap 2^6, reported); x cleaned x '
        '{no subsamples, A pos, A+B pid}; non-trivial = distinct (catalog, selection, mask, config) with >=2 files or a mask '
        'that drops at least one and keeps at least one row')
ASSUMPTIONS = ['asdf.open served by the in-memory double (validated in C01)', 'the filter function is pure (keyed on halo id); every halo of the selected files is shown to it']
CHUNK = 4

CONFIGS = [dict(cleaned=c, subs=s) for c in (True, False) for s in ('off', 'A', 'ABpid')]
FIELDSETS = [['id'], ['id', 'N', 'x_com'], ['id', 'sigmavMid_com', 'r25_L2com']]
MAINPROG = ['N_mainprog', 'vcirc_max_L2com_mainprog', 'sigmav3d_L2com_mainprog', 'v_L2com_mainprog', 'haloindex']


def alphabet():
    from vf.checks import c01
    return [c01.V6[1], c01.V6[2], c01.V6[3]]


def seqs(nv, H):
    for h in range(H + 1):
        yield from itertools.product(range(nv), repeat=h)


def cases(tier, seed):
    plans = [(1, 2), (2, 2)] if tier == 'quick' else [(1, 3), (2, 3), (3, 1)]
    k = 0
    for S, H in plans:
        per = list(seqs(3, H))
        for combo in itertools.product(per, repeat=S):
            if S == 2 and H == 3 and sum(map(len, combo)) > 5:
                continue
            for ci in range(len(CONFIGS)):
                yield dict(slabs=[list(c) for c in combo], cfg=ci, fs=k % 3)
                k += 1
    if tier == 'quick':
        for combo in itertools.product(list(seqs(3, 1)), repeat=3):
            for ci in (1, 5):
                yield dict(slabs=[list(c) for c in combo], cfg=ci, fs=k % 3)
                k += 1
    # halo light-cone layout with every row mask (slice contents only: that format is not re-indexed)
    lcv = [(0, 0), (1, 0), (2, 1), (1, 1)]
    for n in range(1, 4):
        for combo in itertools.product(range(len(lcv)), repeat=n):
            yield dict(lc=True, kind='lc', halos=[lcv[i] for i in combo])
    # the directory is listed afresh on every load: superslab files appearing / disappearing between two loads in one process
    for ci in (0, 1, 4):
        yield dict(dirchange=True, cfg=ci)
    yield dict(negative=True)


_ENV = None


def worker_init():
    global _ENV
    from vf import catgen
    _ENV = catgen.Env()


def subs_arg(s):
    return {'off': False, 'A': dict(A=True, pos=True), 'ABpid': dict(A=True, B=True, pid=True)}[s]


def opts_for(cfg):
    o = dict(cleaned=cfg['cleaned'])
    if cfg['subs'] == 'A':
        o.update(AB='A', which=['pos'])
    elif cfg['subs'] == 'ABpid':
        o.update(AB='AB', which=['pid'])
    else:
        o.update(AB='')
    return o


def run_dirchange(case):
    import tempfile
    from vf import catgen
    from vf.checks import c01
    A = alphabet()
    cat = catgen.Catalog([[A[0]], [A[1], A[2]], [A[0], A[1]]])
    cfg = CONFIGS[case['cfg']]
    o = opts_for(cfg)
    root = tempfile.mkdtemp(prefix='DYN', dir=_ENV.root)
    zdir = os.path.join(root, catgen.SIM, 'halos', catgen.ZDIR)

    def paths(si):
        return [os.path.join(root, catgen.SIM, 'halos', catgen.ZDIR, 'halo_info', f'halo_info_{si:03d}.asdf'),
                os.path.join(root, 'cleaning', catgen.SIM, catgen.ZDIR, 'cleaned_halo_info', f'cleaned_halo_info_{si:03d}.asdf'),
                os.path.join(root, 'cleaning', catgen.SIM, catgen.ZDIR, 'cleaned_rvpid', f'cleaned_rvpid_{si:03d}.asdf')]

    def present(si, yes):
        for p in paths(si):
            os.makedirs(os.path.dirname(p), exist_ok=True)
            if yes:
                open(p, 'w').close()
            elif os.path.exists(p):
                os.remove(p)
    _ENV.fake.store = {}
    for rel, node in cat.files.items():
        p = os.path.join(root, catgen.SIM, rel) if rel.startswith('halos/') else os.path.join(root, 'cleaning', catgen.SIM, catgen.ZDIR, rel[len('clean/'):])
        _ENV.fake.store[os.path.abspath(p)] = node
    probs = []
    n = 0
    steps = [([0, 1], 'initial'), ([0, 1, 2], 'superslab 2 appeared'), ([1, 2], 'superslab 0 removed'), ([0, 1, 2], 'superslab 0 back')]
    for which, what in steps:
        for si in range(3):
            present(si, si in which)
        for path in (zdir, os.path.join(zdir, 'halo_info')):
            c = _ENV.load(path, cleaned=cfg['cleaned'], subsamples=subs_arg(cfg['subs']), fields=['id', 'N'])
            n += 1
            for p in c01.check_load(cat, c, o, which)[:1]:
                probs.append(dict(sig='dirchange:stale-file-list', msg=f'cfg={cfg} after "{what}" (superslabs {which} on disk): {p}'))
            exp = [m['id'] for s in which for m in cat.model[s]]
            if [int(x) for x in c.halos['id']] != exp:
                probs.append(dict(sig='dirchange:stale-file-list', msg=f'cfg={cfg} after "{what}" (superslabs {which} on disk): halo ids {list(c.halos["id"])} expected {exp}'))
    seen = set()
    probs = [p for p in probs if not (p['sig'] in seen or seen.add(p['sig']))]
    return dict(problems=probs, evals=n, nt=[('dirchange', case['cfg'], w) for _, w in steps], extra=dict(dirchange_loads=n))


def run_negative():
    from vf import catgen, core
    from vf.checks import c01
    probs = []
    V = c01.V6
    cat = catgen.Catalog([[V[1]], [V[2]]])
    zdir, fns = _ENV.mount(cat)
    n = 0
    for cleaned in (True, False):
        for path, what in (([fns[0], fns[0]], 'duplicate'), ([fns[0], fns[1], fns[0]], 'duplicate'),
                           ([fns[1], fns[0], fns[0]], 'duplicate')):
            n += 1
            try:
                both = _ENV.load(path, cleaned=cleaned, fields=['id'], subsamples=dict(A=True, pos=True))
            except Exception:
                continue        # rejected (the kind of exception is not part of the property)
            # accepted: then it must be what the property says - the concatenation, in list order, of the single-file loads
            singles = {p: _ENV.load(p, cleaned=cleaned, fields=['id'], subsamples=dict(A=True, pos=True)) for p in set(path)}
            ok = list(both.halos['id']) == [i for p in path for i in singles[p].halos['id']]
            off = 0
            for p in path:
                cobj = singles[p]
                for r in range(len(cobj.halos)):
                    if not ok:
                        break
                    s0, n0 = int(cobj.halos['npstartA'][r]), int(cobj.halos['npoutA'][r])
                    s1, n1 = int(both.halos['npstartA'][off + r]), int(both.halos['npoutA'][off + r])
                    ok = n0 == n1 and np.array_equal(np.asarray(cobj.subsamples['pos'][s0:s0 + n0]), np.asarray(both.subsamples['pos'][s1:s1 + n1]))
                off += len(cobj.halos)
            if not ok:
                probs.append(dict(sig='negative:accepted-' + what, msg=f'{what} file list accepted but the result is not the concatenation of the single-file loads: {path}'))
        # files of two different catalogs
        cat2 = catgen.Catalog([[V[1]]], slab_ids=[7])
        d2 = _ENV.tree([7])
        other = os.path.join(d2, catgen.SIM, 'halos', catgen.ZDIR, 'halo_info', 'halo_info_007.asdf')
        n += 1
        try:
            _ENV.load([fns[0], other], cleaned=cleaned, fields=['id'])
            probs.append(dict(sig='negative:accepted-mixed', msg='files from different catalogs accepted'))
        except Exception:
            pass
    # a sibling catalog whose directory name merely EXTENDS the first one's name (z0.500 / z0.500_b), named after it in the
    # list: either the list is refused, or the result is the concatenation of the two single-file loads (slices included)
    # (both catalogs have superslabs 0 and 1, so a loader that looks for the particle files of B's superslab 1 next to A finds A's)
    catA = catgen.Catalog([[V[1], V[2]], [V[2], V[3]]], slab_ids=[0, 1])
    catB = catgen.Catalog([[V[4]], [V[3], V[1], V[4]]], slab_ids=[0, 1])
    for cleaned in (True, False):
        for subs in (False, dict(A=True, pos=True)):
            zdir, fnsA = _ENV.mount(catA)
            d = os.path.dirname(os.path.dirname(os.path.dirname(zdir)))
            sib = catgen.ZDIR + '_b'
            fnB = None
            for rel, node in catB.files.items():
                if rel.startswith('halos/'):
                    p = os.path.join(d, catgen.SIM, rel.replace('/' + catgen.ZDIR + '/', '/' + sib + '/', 1))
                else:
                    p = os.path.join(d, 'cleaning', catgen.SIM, sib, rel[len('clean/'):])
                os.makedirs(os.path.dirname(p), exist_ok=True)
                if not os.path.exists(p):
                    open(p, 'w').close()
                _ENV.fake.store[os.path.abspath(p)] = node
                if p.endswith('halo_info_001.asdf') and 'cleaning' not in p:
                    fnB = p
            n += 1
            kw = dict(cleaned=cleaned, fields=['id', 'N'])
            try:
                both = _ENV.load([fnsA[0], fnB], subsamples=dict(subs) if subs else False, **kw)
            except Exception:
                continue        # refused
            try:
                a = _ENV.load(fnsA[0], subsamples=dict(subs) if subs else False, **kw)
                b = _ENV.load(fnB, subsamples=dict(subs) if subs else False, **kw)
            except Exception as e:
                st = core.stale_reason(e)
                if st:
                    raise core.Stale(st)
                raise
            ok = list(both.halos['id']) == list(a.halos['id']) + list(b.halos['id'])
            if ok and subs:
                for cobj, off in ((a, 0), (b, len(a.halos))):
                    for r in range(len(cobj.halos)):
                        s0, n0 = int(cobj.halos['npstartA'][r]), int(cobj.halos['npoutA'][r])
                        s1, n1 = int(both.halos['npstartA'][off + r]), int(both.halos['npoutA'][off + r])
                        if n0 != n1 or not np.array_equal(np.asarray(cobj.subsamples['pos'][s0:s0 + n0]), np.asarray(both.subsamples['pos'][s1:s1 + n1])):
                            ok = False
            if not ok:
                probs.append(dict(sig='negative:sibling-catalog-mixed-in', msg=f'cleaned={cleaned} subsamples={subs}: the list [{fnsA[0]}, {fnB}] (two catalogs, z0.500 and z0.500_b) was accepted but is not the concatenation of the two single-file loads'))
    return dict(problems=probs, evals=n, nt=['negative-dup', 'negative-mixed', 'negative-sibling'])


def run(case):
    from vf import catgen
    from vf.checks import c01
    import traceback
    if case.get('negative'):
        return run_negative()
    if case.get('dirchange'):
        return run_dirchange(case)
    if case.get('lc'):
        c01._ENV = _ENV
        r = c01.run_lc(case, with_masks=True)
        r['nt'] = [('lc', case['halos'])]
        return r
    A = alphabet()
    slabs = [[A[i] for i in s] for s in case['slabs']]
    cat = catgen.Catalog(slabs)
    cfg = CONFIGS[case['cfg']]
    o = opts_for(cfg)
    fields = list(FIELDSETS[case['fs']])
    if cfg['cleaned'] and case['fs'] == 1:
        fields += MAINPROG        # columns the loader re-creates with another shape after allocating the table
    zdir, fns = _ENV.mount(cat)
    S = len(slabs)
    probs = []
    nl = 0
    nt = []
    rows = 0
    capped = 0

    def load(path, filt=None):
        nonlocal nl
        nl += 1
        return _ENV.load(path, cleaned=cfg['cleaned'], subsamples=subs_arg(cfg['subs']), fields=list(fields), filter_func=filt)

    try:
        single = [load(fns[s]) for s in range(S)]
    except Exception as e:
        return dict(problems=[dict(sig='load-raises:' + type(e).__name__, msg=''.join(traceback.format_exception(e))[-1500:])])
    plain_cols = [c for c in single[0].halos.colnames if not c.startswith(('npstart', 'npout'))]
    for s in range(S):
        for p in c01.check_load(cat, single[s], o, [s])[:1]:
            probs.append(dict(sig='single-file-ownership', msg=f'file {s}: {p}'))

    sels = [('dir', list(range(S)))]
    for k in range(1, S + 1):
        for perm in itertools.permutations(range(S), k):
            sels.append(('list', list(perm)))
    for kind, order in sels:
        path = zdir if kind == 'dir' else [fns[s] for s in order]
        nrow = [len(slabs[s]) for s in order]
        allmasks = list(itertools.product(*[list(itertools.product((True, False), repeat=n)) for n in nrow]))
        if len(allmasks) > 64:
            capped += len(allmasks) - 64
            allmasks = allmasks[:32] + allmasks[-32:]
        for mi, masks in enumerate([None] + allmasks):
            seen = []
            if masks is None:
                filt = None
            else:
                # a pure function of the rows it is shown (keyed on halo id), however often and for whichever files it is called
                keep_ids = {cat.model[s][hi]['id'] for k, s in enumerate(order) for hi in range(len(slabs[s])) if masks[k][hi]}

                def filt(h, keep_ids=keep_ids, seen=seen):
                    ids = [int(x) for x in h['id']]
                    seen.append(dict(cols=list(h.colnames), N=np.array(h['N']).copy() if 'N' in h.colnames else None, ids=ids))
                    return np.array([i in keep_ids for i in ids], dtype=bool)
            try:
                c = load(path, filt)
            except Exception as e:
                probs.append(dict(sig='load-raises:' + type(e).__name__,
                                  msg=f'selection={kind}{order} masks={masks}: ' + ''.join(traceback.format_exception(e))[-1500:]))
                continue
            rows += len(c.halos)
            tag = 'filter' if masks is not None else 'concat'
            # (1) ownership with re-indexing
            for p in c01.check_load(cat, c, o, order, masks)[:1]:
                probs.append(dict(sig=f'{tag}:ownership', msg=f'cfg={cfg} selection={kind}{order} masks={masks}: {p}'))
            # (2) halo rows = masked concatenation of the single-file loads
            for col in plain_cols:
                parts = []
                for k, s in enumerate(order):
                    a = np.asarray(single[s].halos[col])
                    parts.append(a if masks is None else a[np.array(masks[k], dtype=bool)])
                exp = np.concatenate(parts) if parts else None
                got = np.asarray(c.halos[col]) if col in c.halos.colnames else None
                if got is None or got.shape != exp.shape or not np.array_equal(got, exp, equal_nan=True):
                    probs.append(dict(sig=f'{tag}:rows', msg=f'cfg={cfg} fields={fields} selection={kind}{order} masks={masks}: column {col}\n got {None if got is None else got.tolist()}\n exp {exp.tolist()}'))
                    break
            # (3) what the filter saw: for every shown table, N is the (cleaned) particle count of exactly the halos shown
            if masks is not None:
                byid = {m['id']: m for s in order for m in cat.model[s]}
                shown = set()
                for sv in seen:
                    shown |= set(sv['ids'])
                    if cfg['cleaned']:
                        expN = np.array([byid[i]['N_total'] for i in sv['ids']], dtype=np.int64)
                        if sv['N'] is None or not np.array_equal(sv['N'].astype(np.int64), expN):        # (N_total may be visible as well)
                            probs.append(dict(sig='filter:sees-N', msg=f'cleaned: filter saw cols={sv["cols"]} N={sv["N"]} expected N={expN.tolist()}'))
                    elif 'N' in fields:
                        expN = np.array([byid[i]['N'] for i in sv['ids']], dtype=np.int64)
                        if sv['N'] is None or not np.array_equal(sv['N'].astype(np.int64), expN):
                            probs.append(dict(sig='filter:sees-N', msg=f'uncleaned: filter saw N={sv["N"]} expected {expN.tolist()}'))
                if shown != set(byid):
                    probs.append(dict(sig='filter:rows-shown', msg=f'the filter was shown halos {sorted(shown)} but the selected files hold {sorted(byid)}'))
            if len(order) >= 2 or (masks is not None and any(any(m) for m in masks) and not all(all(m) for m in masks)):
                nt.append((case['slabs'], case['cfg'], kind, order, masks))
    return dict(problems=probs, evals=nl, nt=nt, extra=dict(loads=nl, halo_rows_checked=rows, masks_capped=capped),
                sample=dict(case=case, selections=[s[1] for s in sels][:4]) if case['slabs'] == [[0, 1], [2]] and case['cfg'] == 1 else None)

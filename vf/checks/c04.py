"""C04 - RVint and PID bit fields decode exactly per the documented layout.

Bounded exhaustive enumeration on abacusnbody.data.bitpacked (unpack_rvint, unpack_pids, _unpack_rvint,
_unpack_pids, empty_bitpacked_arrays) plus the two numba staticmethods of CompaSOHaloCatalog that call the kernels.

quick    : all 2^20 position fields x 8 velocity backgrounds and all 2^12 velocity fields x 64 position
           backgrounds, in each of the 3 columns, x 4 BoxSize x {float32, float64} x all 9 posout/velout
           selections {None, False, array}^2 (+ flat / oversized / foreign-dtype preallocated outputs);
           PID: every value of each aux field x 16 backgrounds of all other bits x Box{1,32,2000} x ppd{1,64,6912}
           x {float32,float64}; all 32 subsets of requested outputs; preallocated outputs.
thorough : quick + ALL 2^32 words through each column (row r = words w, w+1, w+2), float32 and float64.
Oracle   : vf/c04_ref.py (tables/vectorised formulas from the documented layout), cross-checked in selfcheck()
           against the scalar references of vf/refs.py.  Velocity, density, indices, tagged, pid are exact;
           positions are allowed 4*eps*|x| (any association of idx*Box/1e6), lagr_pos 2*eps*max(|idx*Box/ppd|, Box/2).
Private kernels are reached by name with keyword arguments; when a name/signature is gone the sub-case is skipped
(counted as subcases_skipped_driver_stale, announced by a NOTE), the public entry points keep deciding.
"""
import itertools
import numpy as np

from vf import core
from vf import c04_ref as R

PID = 'C04'
LEVEL = 'exploration'
RULE = ('RVint quick: 3 columns x (2^20 position fields x 8 velocity backgrounds + 2^12 velocity fields x 64 position '
        'backgrounds) x Box{2000,1,32,1185} x {f4,f8} x 9 output selections; thorough adds all 2^32 words per column '
        '(256 chunks of 2^24 rows, rows carry w,w+1,w+2) x {f4,f8} x {allocated, preallocated, pos-only, vel-only}. '
        'PID: every value of ix,iy,iz (2^15 each), tagged (2), density (2^10) x 16 backgrounds of all other bits '
        'x Box{1,32,2000} x ppd{1,64,6912} x {f4,f8}; 32 output subsets; empty_bitpacked_arrays + _unpack_pids. '
        'evaluations = words put through the real decoder, summed over calls (every call is compared with the reference '
        'or bitwise with a call that was); distinct_nontrivial = distinct (sweep, column/field, background, Box, ppd, dtype, mode) cells, '
        'each containing a whole field sweep; word totals are in the extra counters')
ASSUMPTIONS = [
    'encoding rounds to the nearest quantum (needed only for the encode->decode half-quantum round trip)',
    'position tolerance 4*eps(dtype)*|x| (a few ulp: any association of count*Box/1e6) ; lagr_pos tolerance 2*eps(dtype)*max(|idx*Box/ppd|, Box/2); everything else exact',
    'thorough full sweep uses BoxSize 2000 (the position depends on the word only through the 20-bit field, '
    'which is swept for the 4 BoxSizes in the quick part)',
    'return value for posout/velout=False may be None or an int in [0, N] (docstring is silent); N for a supplied array',
    'a supplied output whose dtype differs from float_dtype is an unspecified combination: either decoded correctly in the array\'s dtype or refused (ValueError/TypeError)',
    'tagged may have any bool/integer dtype holding 0/1; the PID_FIELDS constant is not part of the property',
]
CHUNK = 1
WORKERS = 12

RV_BOXES = [2000.0, 1.0, 32.0, 1185.0]
PID_BOXES = [1.0, 32.0, 2000.0]
PID_PPDS = [1, 64, 6912]
DTS = ['f4', 'f8']
NFULL = 256            # chunks of 2^24 rows
FULL_BOX = 2000.0
SUB = 1 << 18          # rows per block inside a chunk (arrays stay below glibc's 32 MB mmap threshold -> no page-fault storm)
PID_OUT = ('pid', 'lagr_pos', 'tagged', 'density', 'lagr_idx')
POS_ULPS = 4           # eps units allowed on positions


def BOUNDS(tier):
    b = dict(rvint_boxes=RV_BOXES, pid_boxes=PID_BOXES, pid_ppds=PID_PPDS, dtypes=DTS,
             vel_backgrounds=len(R.VEL_BG), pos_backgrounds=len(R.POS_BG), pid_backgrounds=len(R.PID_BG),
             rvint_full_domain=(tier == 'thorough'))
    return b


def cases(tier, seed):
    yield dict(kind='rvmisc')
    yield dict(kind='pidmisc')
    for dt in DTS:
        for box in RV_BOXES:
            yield dict(kind='rvvel', box=box, dt=dt)
    for dt in DTS:
        for box in PID_BOXES:
            for ppd in PID_PPDS:
                yield dict(kind='pid', box=box, ppd=ppd, dt=dt)
    for dt in DTS:
        for half in range(4):
            yield dict(kind='pidsub', dt=dt, part=half)
        yield dict(kind='pidpre', dt=dt)
    yield dict(kind='catkern')
    for dt in DTS:
        for box in RV_BOXES:
            for bg in range(8):
                yield dict(kind='rvpos', box=box, dt=dt, bg=bg)
    if tier == 'thorough':
        for k in range(NFULL):
            for dt in DTS:
                yield dict(kind='rvfull', chunk=k, dt=dt)


def selfcheck():
    R.selfcheck()


_TAB = {}
_SWEEP = None


def tables(box):
    if box not in _TAB:
        _TAB[box] = R.rv_tables(box)
    return _TAB[box]


def sweep():
    global _SWEEP
    if _SWEEP is None:
        _SWEEP = R.pid_sweep()
    return _SWEEP


def DT(s):
    return np.dtype(s).type


class Ctx:
    def __init__(self):
        self.probs = []
        self.calls = 0
        self.words = 0
        self.nt = []
        self.extra = {}
        self.sample = None
        self.stale = None
        self.private_ok = 0

    def skip(self, reason):
        """a sub-case whose driver no longer fits the code (private name / signature gone): counted, never a violation"""
        self.add('subcases_skipped_driver_stale', 1)
        if self.stale is None:
            self.stale = reason[:300]

    def private(self, owner, name, **kw):
        """call the private helper owner.name with keyword arguments; False (and a counted skip) when it cannot be reached"""
        fn = getattr(owner, name, None)
        if fn is None:
            self.skip(f'private helper {name} no longer exists')
            return False
        try:
            fn(**kw)
        except Exception as e:
            st = core.stale_reason(e)
            if st is None:
                raise
            self.skip(f'{name}: {st}')
            return False
        self.calls += 1
        self.private_ok += 1
        return True

    def bad(self, sig, msg):
        if not any(p['sig'] == sig for p in self.probs):
            self.probs.append(dict(sig=sig, msg=msg))

    def add(self, k, n):
        self.extra[k] = self.extra.get(k, 0) + int(n)

    def result(self):
        self.add('entry_point_calls', self.calls)
        r = dict(problems=self.probs, evals=self.words, nt=self.nt, extra=self.extra, sample=self.sample)
        if self.stale:
            r['stale'] = self.stale
        return r


# ---------------------------------------------------------------------------------------------- RVint
def check_rv(cx, u, box, dt, pos, vel, where, scale_eps=None):
    """compare decoded pos/vel (either may be None) of the uint32 words u (N,3) with the reference tables"""
    ptab, vtab = tables(box)
    t = DT(dt)
    cx.words += u.size
    if pos is not None:
        if pos.dtype != t or pos.shape != u.shape:
            cx.bad(f'rvint:pos:dtype-shape:{dt}', f'{where}: pos has dtype {pos.dtype} shape {pos.shape}, expected {dt} {u.shape}')
        else:
            e64 = ptab[u >> np.uint32(12)]
            if not np.array_equal(pos, e64.astype(t)):
                d = np.abs(pos.astype(np.float64) - e64)
                bad = ~(d <= POS_ULPS * max(np.finfo(t).eps, scale_eps or 0.0) * np.abs(e64))
                for c in range(3):
                    if bad[:, c].any():
                        i = int(np.argmax(bad[:, c]))
                        cx.bad(f'rvint:pos:col{c}:{dt}',
                               f'{where}: column {c} word 0x{int(u[i, c]):08X} (row {i}) Box={box}: pos={pos[i, c]!r} expected '
                               f'{e64[i, c]!r} = {int(R.signed_hi(u[i:i + 1, c])[0])} * Box/1e6 ; {int(bad[:, c].sum())} bad words in this column')
    if vel is not None:
        if vel.dtype != t or vel.shape != u.shape:
            cx.bad(f'rvint:vel:dtype-shape:{dt}', f'{where}: vel has dtype {vel.dtype} shape {vel.shape}, expected {dt} {u.shape}')
        else:
            e64 = vtab[u & np.uint32(0xFFF)]
            if not np.array_equal(vel, e64.astype(t)):       # exact: (l-2048)*375/128 is representable in float32
                bad = ~(vel.astype(np.float64) == e64)
                for c in range(3):
                    if bad[:, c].any():
                        i = int(np.argmax(bad[:, c]))
                        cx.bad(f'rvint:vel:col{c}:{dt}',
                               f'{where}: column {c} word 0x{int(u[i, c]):08X} (row {i}): vel={vel[i, c]!r} expected {e64[i, c]!r} = '
                               f'({int(u[i, c]) & 0xFFF} - 2048) * 6000/2048 ; {int(bad[:, c].sum())} bad words in this column')


def roundtrip(cx, u, box, dt, pos, vel, where):
    """encode -> decode: any x inside a quantum cell is recovered to within half a quantum (+ output rounding)"""
    t = DT(dt)
    eps = np.finfo(t).eps
    if pos is not None:
        q = float(box) / 1e6
        s = R.signed_hi(u)
        for off in (-0.499, 0.0, 0.499):
            x = (s + off) * q
            if not np.array_equal(R.encode_pos(x, box), s):
                raise RuntimeError('harness: position encoder does not invert the cell centre')
            err = np.abs(pos.astype(np.float64) - x)
            bad = ~(err <= 0.5 * q + POS_ULPS * eps * np.abs(x))
            if bad.any():
                i, c = (int(k) for k in np.argwhere(bad)[0])
                cx.bad(f'rvint:roundtrip:pos:col{c}:{dt}',
                       f'{where}: x={x[i, c]!r} (Box={box}) encodes to count {int(s[i, c])}, word 0x{int(u[i, c]):08X}; decoded '
                       f'{pos[i, c]!r}; |error| = {err[i, c] / q:.4f} quanta > 0.5 ; {int(bad.sum())} such')
            cx.add('roundtrip_checks', x.size)
    if vel is not None:
        lo = (u & np.uint32(0xFFF)).astype(np.int64)
        for off in (-0.499, 0.0, 0.499):
            v = (lo - 2048 + off) * R.VEL_Q
            if not np.array_equal(R.encode_vel(v), lo):
                raise RuntimeError('harness: velocity encoder does not invert the cell centre')
            err = np.abs(vel.astype(np.float64) - v)
            bad = ~(err <= 0.5 * R.VEL_Q + eps * np.abs(v))
            if bad.any():
                i, c = (int(k) for k in np.argwhere(bad)[0])
                cx.bad(f'rvint:roundtrip:vel:col{c}:{dt}',
                       f'{where}: v={v[i, c]!r} km/s encodes to field {int(lo[i, c])}, word 0x{int(u[i, c]):08X}; decoded '
                       f'{vel[i, c]!r}; |error| = {err[i, c] / R.VEL_Q:.4f} quanta > 0.5 ; {int(bad.sum())} such')
            cx.add('roundtrip_checks', v.size)


def poisoned(shape, t):
    a = np.empty(shape, dtype=t)
    a.fill(np.nan)
    return a


def same(a, b):
    """bitwise-equal float arrays (NaN poison never equals anything written)"""
    return a.shape == b.shape and a.dtype == b.dtype and np.array_equal(a, b)


def rv_modes(cx, bp, u, box, dt, where, modes):
    """baseline allocated call checked against the reference, then every other selection mode against the baseline"""
    t = DT(dt)
    w = u.view(np.int32)
    n = len(w)
    ret = bp.unpack_rvint(w, box, float_dtype=t)
    cx.calls += 1
    if not (isinstance(ret, tuple) and len(ret) == 2 and all(isinstance(a, np.ndarray) for a in ret)):
        cx.bad('rvint:return', f'{where}: unpack_rvint(posout=None, velout=None) returned {type(ret)}')
        return None, None
    pos, vel = ret
    check_rv(cx, u, box, dt, pos, vel, where + ' [allocated]')
    for pm, vm in modes:
        if pm is None and vm is None:
            continue
        po = poisoned((n, 3), t) if pm == 'arr' else pm
        vo = poisoned((n, 3), t) if vm == 'arr' else vm
        r = bp.unpack_rvint(w, box, float_dtype=t, posout=po, velout=vo)
        cx.calls += 1
        cx.words += 3 * n
        tag = f'pos={pm},vel={vm}'
        ok = isinstance(r, tuple) and len(r) == 2
        if ok:
            for name, m, got, out, base in (('pos', pm, r[0], po, pos), ('vel', vm, r[1], vo, vel)):
                if m is None:
                    if not (isinstance(got, np.ndarray) and same(got, base)):
                        cx.bad(f'rvint:select:{tag}:{name}:{dt}', f'{where}: {name} returned with {tag} differs from the one returned when both are requested')
                elif m is False:
                    if not (got is None or (isinstance(got, (int, np.integer)) and 0 <= got <= n)):
                        cx.bad(f'rvint:select:{tag}:ret', f'{where}: return value for {name}out=False is {got!r}')
                else:
                    if not (isinstance(got, (int, np.integer)) and got == n):
                        cx.bad(f'rvint:select:{tag}:ret', f'{where}: return value for supplied {name}out is {got!r}, expected N={n}')
                    if not same(out, base):
                        nb = int((~(out == base)).sum())
                        cx.bad(f'rvint:select:{tag}:{name}:{dt}', f'{where}: supplied {name}out differs from the allocated result in {nb} elements with {tag}')
        else:
            cx.bad('rvint:return', f'{where}: unpack_rvint({tag}) returned {r!r}')
    return pos, vel


ALL_MODES = list(itertools.product((None, False, 'arr'), repeat=2))


def run_rvpos(case, cx, bp):
    box, dt, bg = case['box'], case['dt'], case['bg']
    u = R.words_pos_sweep(bg)
    where = f'pos-sweep vbg#{bg} Box={box} {dt}'
    pos, vel = rv_modes(cx, bp, u, box, dt, where, ALL_MODES)
    if pos is not None:
        roundtrip(cx, u, box, dt, pos if pos.shape == u.shape else None, None, where)
    for c in range(3):
        cx.nt.append(f'rvpos:col{c}:vbg{R.VEL_BG[(bg + c) % 8]:03X}:box{box}:{dt}')
        cx.add(f'rvint_pos_fields_col{c}', R.nuniq(u[:, c] >> np.uint32(12)))
    if bg == 7 and box == 1185.0 and pos is not None:
        i = 0xD5554
        cx.sample = dict(kind='rvint', word=f'0x{int(u[i, 0]):08X}', box=box, dtype=dt, pos=float(pos[i, 0]), vel=float(vel[i, 0]),
                         signed_count=int(R.signed_hi(u[i:i + 1, 0])[0]))


def run_rvvel(case, cx, bp):
    box, dt = case['box'], case['dt']
    u = R.words_vel_sweep()
    where = f'vel-sweep Box={box} {dt}'
    pos, vel = rv_modes(cx, bp, u, box, dt, where, ALL_MODES)
    if vel is not None:
        roundtrip(cx, u, box, dt, pos if pos.shape == u.shape else None, vel if vel.shape == u.shape else None, where)
    if box == 2000.0 and vel is not None and vel.shape == u.shape:
        i = 5 * 4096 + 0xABC
        cx.sample = dict(kind='rvint', word=f'0x{int(u[i, 1]):08X}', column=1, box=box, dtype=dt, pos=float(pos[i, 1]), vel=float(vel[i, 1]),
                         signed_count=int(R.signed_hi(u[i:i + 1, 1])[0]), vel_field=int(u[i, 1]) & 0xFFF)
    for c in range(3):
        for b in np.unique(u[:, c] >> np.uint32(12)):
            cx.nt.append(f'rvvel:col{c}:pbg{int(b):05X}:box{box}:{dt}')
        cx.add(f'rvint_vel_fields_x_bg_col{c}', R.nuniq(u[:, c]))


def run_rvfull(case, cx, bp):
    k, dt = case['chunk'], case['dt']
    t = DT(dt)
    box = FULL_BOX
    nrows = (1 << 32) // NFULL
    for b in range(nrows // SUB):
        base = k * nrows + b * SUB
        u = R.words_full_block(base, SUB)
        w = u.view(np.int32)
        where = f'full sweep rows {base}..{base + SUB - 1} Box={box} {dt}'
        pos, vel = bp.unpack_rvint(w, box, float_dtype=t)
        check_rv(cx, u, box, dt, pos, vel, where + ' [allocated]')
        po, vo = poisoned((SUB, 3), t), poisoned((SUB, 3), t)
        r = bp.unpack_rvint(w, box, float_dtype=t, posout=po, velout=vo)
        if tuple(r) != (SUB, SUB) or not same(po, pos) or not same(vo, vel):
            cx.bad(f'rvint:full:prealloc:{dt}', f'{where}: supplied output arrays differ from allocated ones (ret={r!r})')
        if (k + b) % 2:
            p1 = poisoned((SUB, 3), t)
            r1 = bp.unpack_rvint(w, box, float_dtype=t, posout=p1, velout=False)[0]
            v1 = bp.unpack_rvint(w, box, float_dtype=t, posout=False)[1]
            ok = r1 == SUB
        else:
            v1 = poisoned((SUB, 3), t)
            p1 = bp.unpack_rvint(w, box, float_dtype=t, velout=False)[0]
            r1 = bp.unpack_rvint(w, box, float_dtype=t, posout=False, velout=v1)[1]
            ok = r1 == SUB
        if not (ok and same(p1, pos)):
            cx.bad(f'rvint:full:pos-only:{dt}', f'{where}: position-only result differs from the joint one')
        if not (ok and same(v1, vel)):
            cx.bad(f'rvint:full:vel-only:{dt}', f'{where}: velocity-only result differs from the joint one')
        cx.calls += 4
        cx.words += 3 * 3 * SUB      # check_rv counted the first call
        cx.add(f'rvfull_rows_{dt}', SUB)
        for c in range(3):
            cx.add(f'rvfull_wordsum_col{c}_{dt}', int(u[:, c].sum(dtype=np.uint64)))
        del pos, vel, po, vo, p1, v1, u, w
    cx.nt.append(f'rvfull:chunk{k}:{dt}')


def run_rvmisc(case, cx, bp):
    """layouts of the input and of supplied outputs, BoxSize types, N=0/1, the private kernel called directly"""
    u = R.words_vel_sweep()[::7][:30011].copy()
    u[:11, 0] = [0, 1, 0xFFF, 0x1000, 0x7FFFFFFF, 0x80000000, 0x80000FFF, 0xFFFFFFFF, 0xFFFFF000, 0x7FFFF800, 0x800]
    n = len(u)
    w = u.view(np.int32)
    for dt in DTS:
        t = DT(dt)
        base_pos, base_vel = bp.unpack_rvint(w, 2000.0, float_dtype=t)
        cx.calls += 1
        check_rv(cx, u, 2000.0, dt, base_pos, base_vel, f'misc base {dt}')
        # BoxSize of other numeric types
        for box in (2000, np.float32(1185.0), np.float64(32.0), np.int64(1)):
            p, v = bp.unpack_rvint(w, box, float_dtype=t)
            cx.calls += 1
            # (a BoxSize handed over as a float32 scalar carries float32 precision into the scale factor)
            check_rv(cx, u, float(box), dt, p, v, f'misc Box={box!r} ({type(box).__name__}) {dt}', scale_eps=float(np.finfo(np.float32).eps) if isinstance(box, np.float32) else None)
            cx.nt.append(f'rvmisc:boxtype:{type(box).__name__}:{dt}')
        # flat int32 input, non-contiguous input, N = 0, 1
        variants = dict(flat=(w.reshape(-1), u), strided=(np.ascontiguousarray(np.repeat(w, 2, axis=0))[::2], u),
                        n1=(w[5:6], u[5:6]), n0=(w[:0], u[:0]), fortran=(np.asfortranarray(w), u))
        for name, (wi, ui) in variants.items():
            p, v = bp.unpack_rvint(wi, 2000.0, float_dtype=t)
            cx.calls += 1
            check_rv(cx, ui, 2000.0, dt, p, v, f'misc input={name} {dt}')
            cx.nt.append(f'rvmisc:input:{name}:{dt}')
        # supplied outputs: flat, oversized with guard rows, dtype different from float_dtype
        po, vo = poisoned(3 * n, t), poisoned(3 * n, t)
        r = bp.unpack_rvint(w, 2000.0, float_dtype=t, posout=po, velout=vo)
        cx.calls += 1
        if tuple(r) != (n, n) or not same(po.reshape(-1, 3), base_pos) or not same(vo.reshape(-1, 3), base_vel):
            cx.bad(f'rvint:prealloc:flat:{dt}', f'flat (3N,) supplied outputs differ from allocated ones, ret={r!r}')
        G = 5
        po, vo = poisoned((n + G, 3), t), poisoned((n + G, 3), t)
        r = bp.unpack_rvint(w, 2000.0, float_dtype=t, posout=po, velout=vo)
        cx.calls += 1
        if tuple(r) != (n, n) or not same(po[:n], base_pos) or not same(vo[:n], base_vel):
            cx.bad(f'rvint:prealloc:oversized:{dt}', f'oversized supplied outputs: first N rows differ from allocated result, ret={r!r}')
        if not (np.isnan(po[n:]).all() and np.isnan(vo[n:]).all()):
            cx.bad(f'rvint:prealloc:guard:{dt}', 'rows beyond N of an oversized supplied output were written')
        # supplied outputs that are not C-contiguous: the two halves of one (N,6) buffer, a Fortran-ordered array,
        # every other row of a taller array, and the fields of a record array - the caller's memory must be written
        buf = poisoned((n, 6), t)
        rec = np.zeros(n, dtype=[('pos', t, 3), ('tag', 'i4'), ('vel', t, 3)])
        rec['pos'][:] = np.nan
        rec['vel'][:] = np.nan
        tall_p, tall_v = poisoned((2 * n, 3), t), poisoned((2 * n, 3), t)
        layouts = dict(halves=(buf[:, :3], buf[:, 3:]), fortran=(np.asfortranarray(poisoned((n, 3), t)), np.asfortranarray(poisoned((n, 3), t))),
                       everyother=(tall_p[::2], tall_v[::2]), recfields=(rec['pos'], rec['vel']))
        for lname, (po, vo) in layouts.items():
            r = bp.unpack_rvint(w, 2000.0, float_dtype=t, posout=po, velout=vo)
            cx.calls += 1
            if tuple(r) != (n, n) or not same(po, base_pos) or not same(vo, base_vel):
                cx.bad(f'rvint:prealloc:noncontiguous:{lname}:{dt}', f'supplied {lname} (non C-contiguous) outputs do not hold the decoded values afterwards, ret={r!r}; '
                       f'pos[0]={np.asarray(po)[0].tolist()} expected {base_pos[0].tolist()}')
            cx.nt.append(f'rvmisc:prealloc:{lname}:{dt}')
        if not (np.isnan(tall_p[1::2]).all() and np.isnan(tall_v[1::2]).all()):
            cx.bad(f'rvint:prealloc:guard:{dt}', 'rows between the supplied strided output rows were written')
        other = 'f8' if dt == 'f4' else 'f4'
        po, vo = poisoned((n, 3), DT(other)), poisoned((n, 3), DT(other))
        try:
            r = bp.unpack_rvint(w, 2000.0, float_dtype=t, posout=po, velout=vo)
        except (ValueError, TypeError):
            cx.add('foreign_dtype_output_refused', 1)      # unspecified combination: a refusal is acceptable
        else:
            cx.calls += 1
            check_rv(cx, u, 2000.0, other, po, vo, f'misc supplied {other} outputs with float_dtype={dt}')
        # private kernel, as called from the catalog loader
        for pm, vm in ((True, True), (True, False), (False, True)):
            po = poisoned((n, 3), t) if pm else None
            vo = poisoned((n, 3), t) if vm else None
            if cx.private(bp, '_unpack_rvint', intdata=w, boxsize=2000.0, posout=po, velout=vo):
                check_rv(cx, u, 2000.0, dt, po, vo, f'misc _unpack_rvint(pos={pm}, vel={vm}) {dt}')
        cx.nt.append(f'rvmisc:prealloc:{dt}')
    # default float_dtype is float32
    p, v = bp.unpack_rvint(w, 2000.0)
    cx.calls += 1
    check_rv(cx, u, 2000.0, 'f4', p, v, 'misc default float_dtype')


# ---------------------------------------------------------------------------------------------- PID
def check_pid(cx, P, box, ppd, dt, out, where, want=PID_OUT, meta=None):
    """compare the dict `out` of decoded arrays with the reference for the words P"""
    t = DT(dt)
    ref = R.pid_ref_vec(P, 1.0 if box is None else box, 1 if ppd is None else ppd)
    n = len(P)

    def first(bad):
        i = int(np.argmax(bad.reshape(n, -1).any(axis=1)))
        m = ''
        if meta is not None:
            F, B, V = meta
            m = f' [sweep of {R.FIELDS[int(F[i])][0]}={int(V[i])}, background #{int(B[i])}=0x{R.PID_BG[int(B[i])]:016X}]'
        return i, f'word 0x{int(P[i]):016X}{m}'

    if set(out) != set(want):
        cx.bad('pid:keys', f'{where}: requested {sorted(want)}, got keys {sorted(out)}')
    shapes = dict(pid=((n,), np.int64), lagr_idx=((n, 3), np.int16), lagr_pos=((n, 3), t), tagged=((n,), None), density=((n,), t))
    for k in want:
        if k not in out:
            continue
        g = out[k]
        shp, edt = shapes[k]
        if g.shape != shp or (g.dtype != edt if edt is not None else g.dtype.kind not in 'biu'):
            cx.bad(f'pid:{k}:dtype-shape', f'{where}: {k} has dtype {g.dtype} shape {g.shape}, expected {np.dtype(edt) if edt else "a bool/integer dtype"} {shp}')
            continue
        if g.dtype == np.bool_:
            g = g.view(np.uint8)          # raw bytes: 0/1 exactly (an unwritten poison byte is not a 1)
        if k == 'lagr_pos':
            e64 = ref[k]
            if not np.array_equal(g, e64.astype(t)):
                scale = np.maximum(np.abs(e64 + float(box) / 2.0), float(box) / 2.0)
                bad = ~(np.abs(g.astype(np.float64) - e64) <= 2 * np.finfo(t).eps * scale)
                if bad.any():
                    i, d = first(bad)
                    cx.bad(f'pid:lagr_pos:{dt}', f'{where}: {d} Box={box} ppd={ppd}: lagr_pos={g[i].tolist()} expected {e64[i].tolist()} '
                                                 f'= idx {ref["lagr_idx"][i].tolist()} * Box/ppd - Box/2 ; {int(bad.any(axis=1).sum())} bad words')
        else:
            e = ref[k]
            bad = ~(g.astype(np.float64 if k == 'density' else np.int64) == e)
            if bad.any():
                i, d = first(bad)
                sig = f'pid:{k}' + (f':{dt}' if k == 'density' else '')
                cx.bad(sig, f'{where}: {d}: {k}={g[i].tolist()} expected {e[i].tolist()} ; {int(bad.reshape(n, -1).any(axis=1).sum())} bad words')
    cx.words += n


def check_pid_invariance(cx, out, box, ppd, dt, meta, where):
    """the swept field decodes to a function of the field value alone, whatever the other 64-w bits are"""
    F, B, V = meta
    t = DT(dt)
    for fi, (name, sh, wd) in enumerate(R.FIELDS):
        m = F == fi
        v = V[m]
        if name in ('ix', 'iy', 'iz'):
            got = out['lagr_idx'][m, fi].astype(np.int64)
            exp = v
            gp = out['lagr_pos'][m, fi].astype(np.float64)
            ep = v * (float(box) / ppd) - float(box) / 2
            badp = ~(np.abs(gp - ep) <= 2 * np.finfo(t).eps * np.maximum(v * (float(box) / ppd), float(box) / 2))
            gi = (out['pid'][m] >> sh) & 0x7FFF
            bad = ~(got == exp) | badp | ~(gi == v)
        elif name == 'tagged':
            tg = out['tagged']
            tg = tg.view(np.uint8) if tg.dtype == np.bool_ else tg
            bad = ~(tg[m].astype(np.int64) == v)
        else:
            bad = ~(out['density'][m].astype(np.float64) == (v * v))
        if bad.any():
            i = int(np.argmax(bad))
            b = int(B[m][i])
            cx.bad(f'pid:field-invariance:{name}', f'{where}: field {name}={int(v[i])} is not recovered under background #{b} '
                                                   f'(0x{R.PID_BG[b]:016X}); {int(bad.sum())} (value, background) pairs fail')
        for b in range(len(R.PID_BG)):
            cx.nt.append(f'pid:{name}:bg{b}:box{box}:ppd{ppd}:{dt}')


def run_pid(case, cx, bp):
    box, ppd, dt = case['box'], case['ppd'], case['dt']
    P, F, B, V = sweep()
    where = f'unpack_pids Box={box} ppd={ppd} {dt}'
    out = bp.unpack_pids(P, box=box, ppd=ppd, float_dtype=DT(dt), **{k: True for k in PID_OUT})
    cx.calls += 1
    check_pid(cx, P, box, ppd, dt, out, where, meta=(F, B, V))
    if set(out) == set(PID_OUT) and all(len(out[k]) == len(P) for k in PID_OUT):
        check_pid_invariance(cx, out, box, ppd, dt, (F, B, V), where)
    cx.add('pid_words_swept', len(P))
    if box == 2000.0 and ppd == 6912 and dt == 'f4' and len(out.get('pid', ())) == len(P):
        i = int(np.nonzero((F == 1) & (B == 13) & (V == 3456))[0][0])
        cx.sample = dict(kind='aux', word=f'0x{int(P[i]):016X}', box=box, ppd=ppd, dtype=dt,
                         **{k: np.asarray(out[k][i]).tolist() for k in out})


def run_pidsub(case, cx, bp):
    """all subsets of requested outputs give the same arrays as the full request"""
    dt, part = case['dt'], case['part']
    t = DT(dt)
    P, F, B, V = sweep()
    box, ppd = 2000.0, 6912
    full = bp.unpack_pids(P, box=box, ppd=ppd, float_dtype=t, **{k: True for k in PID_OUT})
    cx.calls += 1
    check_pid(cx, P, box, ppd, dt, full, f'subsets base {dt}', meta=(F, B, V))
    subsets = list(itertools.product((False, True), repeat=5))[part * 8:(part + 1) * 8]
    for fl in subsets:
        kw = dict(zip(PID_OUT, fl))
        want = [k for k in PID_OUT if kw[k]]
        variants = [('box,ppd', dict(box=box, ppd=ppd))]
        if not kw['lagr_pos']:
            variants.append(('no box/ppd', {}))       # "needed only for lagr_pos"
        for vn, bk in variants:
            out = bp.unpack_pids(P, float_dtype=t, **bk, **kw)
            cx.calls += 1
            where = f'unpack_pids(request={want}, {vn}) {dt}'
            if set(out) != set(want):
                cx.bad('pid:subset:keys', f'{where}: got keys {sorted(out)}')
            for k in want:
                if k in out:
                    if not (k in full and same(np.asarray(out[k]), np.asarray(full[k]))):
                        cx.bad(f'pid:subset:{k}', f'{where}: {k} differs from the array returned when every output is requested')
            cx.words += len(P)
            cx.nt.append(f'pidsub:{"".join(str(int(x)) for x in fl)}:{vn}:{dt}')


def run_pidpre(case, cx, bp):
    """empty_bitpacked_arrays + _unpack_pids writing into the supplied arrays (the catalog loader's way)"""
    dt = case['dt']
    t = DT(dt)
    P, F, B, V = sweep()
    n = len(P)
    box, ppd = 32.0, 64
    allf = list(getattr(bp, 'PID_FIELDS', PID_OUT + ('packedpid',)))       # order / container type of the constant is not part of the property
    specs = [True, False, 'density', 'lagr_pos', ['pid', 'packedpid'], ['lagr_idx', 'tagged'], allf,
             ['lagr_pos', 'density', 'tagged'], ['packedpid']]
    exp_keys = {True: set(PID_OUT) | {'packedpid'}, False: {'pid'}}
    shapes = dict(pid=((n,), np.int64), lagr_idx=((n, 3), np.int16), lagr_pos=((n, 3), t), tagged=((n,), None),
                  density=((n,), t), packedpid=((n,), np.uint64))
    cx.add('PID_FIELDS_is_documented_set', int(set(allf) == set(PID_OUT) | {'packedpid'}))
    for spec in specs:
        arr = bp.empty_bitpacked_arrays(n, spec, float_dtype=t)
        cx.calls += 1
        want = exp_keys[spec] if isinstance(spec, bool) else ({spec} if isinstance(spec, str) else set(spec))
        where = f'empty_bitpacked_arrays(N, {spec!r}, {dt})'
        if set(arr) != want:
            cx.bad('pid:prealloc:keys', f'{where}: keys {sorted(arr)}, expected {sorted(want)}')
            continue
        okshape = True
        for k, a in arr.items():
            if a.shape != shapes[k][0] or (a.dtype != shapes[k][1] if shapes[k][1] is not None else a.dtype.kind not in 'biu'):
                cx.bad(f'pid:prealloc:{k}:dtype-shape', f'{where}: {k} has dtype {a.dtype} shape {a.shape}')
                okshape = False
            # poison
            a.view(np.uint8).fill(0xA5)
        if not okshape:
            continue
        kw = {k: v for k, v in arr.items() if k != 'packedpid'}
        if cx.private(bp, '_unpack_pids', packed=P, box=box, ppd=ppd, float_dtype=t, **kw):
            check_pid(cx, P, box, ppd, dt, kw, f'_unpack_pids into {where}', want=[k for k in PID_OUT if k in kw], meta=(F, B, V))
            if 'packedpid' in arr and not (arr['packedpid'].view(np.uint8) == 0xA5).all():
                cx.bad('pid:prealloc:packedpid-touched', f'{where}: _unpack_pids is not given packedpid but it changed')
        cx.nt.append(f'pidpre:{spec!r}:{dt}')
    # defaults of the kernel (float_dtype omitted -> float32)
    if dt == 'f4':
        lp = poisoned((n, 3), np.float32)
        de = poisoned((n,), np.float32)
        if cx.private(bp, '_unpack_pids', packed=P, box=box, ppd=ppd, lagr_pos=lp, density=de):
            check_pid(cx, P, box, ppd, 'f4', dict(lagr_pos=lp, density=de), '_unpack_pids default float_dtype', want=['lagr_pos', 'density'], meta=(F, B, V))


def run_pidmisc(case, cx, bp):
    """input containers and argument types"""
    P, F, B, V = sweep()
    sel = np.zeros(len(P), dtype=bool)
    for fi, (_, sh, wd) in enumerate(R.FIELDS):
        top = (1 << wd) - 1
        sel |= (F == fi) & np.isin(V, [0, 1, top // 2, top // 2 + 1, top - 1, top, 0x1234 & top])
    Q = np.ascontiguousarray(P[sel])
    n = len(Q)
    allk = {k: True for k in PID_OUT}
    for dt in DTS:
        t = DT(dt)
        inputs = dict(uint64=Q, int64view=Q.view(np.int64), strided=np.repeat(Q, 3)[::3], n1=Q[7:8], n0=Q[:0],
                      pylist=[int(x) for x in Q[Q < np.uint64(1 << 63)]],
                      bigendian=Q.astype('>u8'), int32pairs_noncontig=np.repeat(Q, 2)[::2])   # same VALUES in a non-native byte order (e.g. a file block stored big-endian)
        for name, inp in inputs.items():
            out = bp.unpack_pids(inp, box=2000.0, ppd=6912, float_dtype=t, **allk)
            cx.calls += 1
            Pi = np.asarray(inp, dtype=np.uint64) if name != 'int64view' else np.asarray(inp).view(np.uint64)
            check_pid(cx, Pi, 2000.0, 6912, dt, out, f'pidmisc input={name} {dt}')
            cx.nt.append(f'pidmisc:input:{name}:{dt}')
        for box, ppd in ((2000, 6912), (np.float32(32.0), 64.0), (1, np.int64(1)), (np.float64(2000.0), np.float64(6912.0)), (1185.0, 1440)):
            out = bp.unpack_pids(Q, box=box, ppd=ppd, float_dtype=t, **allk)
            cx.calls += 1
            check_pid(cx, Q, float(box), int(ppd), dt, out, f'pidmisc Box={box!r} ({type(box).__name__}) ppd={ppd!r} ({type(ppd).__name__}) {dt}')
            cx.nt.append(f'pidmisc:args:{type(box).__name__}:{type(ppd).__name__}:{dt}')
    # ppd is a float in the file headers; values within rounding of an integer (e.g. a cube root) mean that integer
    for dt in DTS:
        for ppd_true in (6912, 64, 1440, 3):
            for ppdf in (np.nextafter(float(ppd_true), 0.0), np.nextafter(float(ppd_true), 1e9), (float(ppd_true) ** 3) ** (1 / 3),
                         float(ppd_true) * (1 - 4e-16), np.float32(ppd_true)):
                out = bp.unpack_pids(Q, box=2000.0, ppd=ppdf, float_dtype=DT(dt), **allk)
                cx.calls += 1
                check_pid(cx, Q, 2000.0, ppd_true, dt, out, f'pidmisc near-integer float ppd={ppdf!r} (means {ppd_true}) {dt}')
                cx.nt.append(f'pidmisc:floatppd:{ppd_true}:{ppdf!r}:{dt}')
    # default float_dtype
    out = bp.unpack_pids(Q, box=32.0, ppd=64, **allk)
    cx.calls += 1
    check_pid(cx, Q, 32.0, 64, 'f4', out, 'pidmisc default float_dtype')
    # nothing requested
    out = bp.unpack_pids(Q)
    cx.calls += 1
    if out != {}:
        cx.bad('pid:keys', f'unpack_pids(packed) with nothing requested returned keys {sorted(out)}')


def run_catkern(case, cx, bp):
    """the numba staticmethods of CompaSOHaloCatalog that drive the kernels per halo (original + cleaned zipper)"""
    from abacusnbody.data.compaso_halo_catalog import CompaSOHaloCatalog as C
    u = R.words_vel_sweep()
    n = len(u)
    w = u.view(np.int32)
    # four "halos" reading [10,1000), [1000,70000), [70000,70000) (empty), [70000, n-3)
    ro = np.array([10, 1000, 70000, 70000], dtype=np.int64)
    rl = np.array([990, 69000, 0, n - 3 - 70000], dtype=np.int64)
    wo = np.concatenate([[0], np.cumsum(rl)]).astype(np.int64)
    ntot = int(wo[-1])
    src = np.concatenate([np.arange(a, a + l) for a, l in zip(ro, rl)])
    for dt in DTS:
        t = DT(dt)
        for box in (2000.0, 1185.0):
            pos, vel = poisoned((ntot, 3), t), poisoned((ntot, 3), t)
            rv = np.zeros((ntot, 3), dtype=np.int32)
            if cx.private(C, '_unpack_rv_subsamples', pos=pos, vel=vel, rvint=rv, slab_rvint=w, slab_read_offsets=ro,
                          slab_read_lens=rl, slab_write_offsets=wo, boxsize=box):
                check_rv(cx, u[src], box, dt, pos, vel, f'_unpack_rv_subsamples Box={box} {dt}')
                if not np.array_equal(rv, w[src]):
                    cx.bad('catkern:rvint-copy', '_unpack_rv_subsamples: copied rvint differs from the source rows')
                cx.nt.append(f'catkern:rv:box{box}:{dt}')
    # zipper with a cleaned stream: halo i = original rows then cleaned rows
    cro = np.array([5, 50, 500, 5000], dtype=np.int64)
    crl = np.array([7, 0, 300, 1000], dtype=np.int64)
    wo2 = np.concatenate([[0], np.cumsum(rl + crl)]).astype(np.int64)
    u2 = R.words_pos_sweep(3)
    w2 = u2.view(np.int32)
    src_u = np.concatenate([np.concatenate([u[a:a + l], u2[b:b + m]]) for a, l, b, m in zip(ro, rl, cro, crl)])
    pos, vel = poisoned((int(wo2[-1]), 3), np.float32), poisoned((int(wo2[-1]), 3), np.float32)
    if cx.private(C, '_unpack_rv_subsamples', pos=pos, vel=vel, rvint=None, slab_rvint=w, slab_read_offsets=ro, slab_read_lens=rl,
                  slab_write_offsets=wo2, boxsize=2000.0, clean_slab_rvint=w2, clean_slab_read_offsets=cro, clean_slab_read_lens=crl):
        check_rv(cx, src_u, 2000.0, 'f4', pos, vel, '_unpack_rv_subsamples with cleaned stream')
        cx.nt.append('catkern:rv:cleaned')
    # PID
    P, F, B, V = sweep()
    npid = len(P)
    ro = np.array([0, 40000, 40000, 900000], dtype=np.int64)
    rl = np.array([40000, 0, 860000, npid - 900000], dtype=np.int64)
    wo = np.concatenate([[0], np.cumsum(rl)]).astype(np.int64)
    for dt in DTS[:1]:          # the loader allocates float32 (empty_bitpacked_arrays default)
        for box, ppd in ((2000.0, 6912), (32.0, 64.0)):      # header['ppd'] may be a float
            arr = bp.empty_bitpacked_arrays(npid, True)
            for a in arr.values():
                a.view(np.uint8).fill(0xA5)
            if cx.private(C, '_unpack_pid_subsamples', pid=arr['pid'], slab_packedpid=P, slab_read_offsets=ro, slab_read_lens=rl,
                          slab_write_offsets=wo, boxsize=box, ppd=ppd, lagr_pos=arr['lagr_pos'], tagged=arr['tagged'],
                          density=arr['density'], lagr_idx=arr['lagr_idx'], packedpid=arr['packedpid']):
                pk = arr.pop('packedpid')
                check_pid(cx, P, box, ppd, dt, arr, f'_unpack_pid_subsamples Box={box} ppd={ppd}', meta=(F, B, V))
                if not np.array_equal(pk, P):
                    cx.bad('catkern:packedpid-copy', '_unpack_pid_subsamples: packedpid output differs from the source words')
                cx.nt.append(f'catkern:pid:box{box}:ppd{ppd}')
    # pid only (unpack_bits=False)
    pid = np.full(npid, -1, dtype=np.int64)
    if cx.private(C, '_unpack_pid_subsamples', pid=pid, slab_packedpid=P, slab_read_offsets=ro, slab_read_lens=rl,
                  slab_write_offsets=wo, boxsize=2000.0, ppd=6912):
        check_pid(cx, P, 2000.0, 6912, 'f4', dict(pid=pid), '_unpack_pid_subsamples pid only', want=['pid'], meta=(F, B, V))
    if cx.private_ok == 0:
        raise core.Stale(cx.stale or 'no private catalog kernel could be reached')


RUN = dict(rvpos=run_rvpos, rvvel=run_rvvel, rvfull=run_rvfull, rvmisc=run_rvmisc, pid=run_pid, pidsub=run_pidsub,
           pidpre=run_pidpre, pidmisc=run_pidmisc, catkern=run_catkern)


def run(case):
    from abacusnbody.data import bitpacked as bp
    cx = Ctx()
    RUN[case['kind']](case, cx, bp)
    return cx.result()


def finalize(agg, tier):
    """the whole stated domain was really visited (measured, not assumed)"""
    out = []
    ex = agg.extra
    if agg.sig_count and any(s.startswith(('exception', 'crash')) for s in agg.sig_count):
        return out
    want = {}
    for c in range(3):
        want[f'rvint_pos_fields_col{c}'] = (1 << 20) * 8 * len(RV_BOXES) * len(DTS)
        want[f'rvint_vel_fields_x_bg_col{c}'] = (1 << 12) * 64 * len(RV_BOXES) * len(DTS)
    want['pid_words_swept'] = 16 * (3 * (1 << 15) + 2 + (1 << 10)) * len(PID_BOXES) * len(PID_PPDS) * len(DTS)
    if tier == 'thorough':
        for dt in DTS:
            want[f'rvfull_rows_{dt}'] = 1 << 32
            for c in range(3):
                want[f'rvfull_wordsum_col{c}_{dt}'] = (1 << 31) * ((1 << 32) - 1)
    for k, v in want.items():
        if ex.get(k) != v:
            out.append(dict(sig='harness:coverage:' + k, msg=f'coverage counter {k} = {ex.get(k)}, expected {v}: the stated domain was not fully visited'))
    return out

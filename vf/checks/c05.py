"""C05 - halo statistics are unpacked into consistent physical units.

Exhaustive over stored values (every int16 value of every compressed ratio column, crossed with reference
values by rotation), (BoxSize, VelZSpace_to_kms) pairs with Box != Vel, conversion on/off, cleaned on/off.
Column kinds are tabulated here from the property statement and the HaloStat layout, not from the loaders.
"""
import numpy as np

PID = 'C05'
LEVEL = 'exploration'
RULE = ('one 65536-row catalog per (Box,Vel) pair x rotation of reference values x cleaned: every int16 value of every '
        'ratio column appears, paired over the rotations with every reference value {0,1e-3,0.25,1}; all columns compared '
        'converted vs unconverted and against the kind table; non-trivial = distinct (column, Box/Vel, rotation, cleaned) '
        'with a conversion factor != 1')
ASSUMPTIONS = ['in-memory asdf double', 'merger-tree (mainprog) columns are stored in final units and pass through unchanged',
               'sigman is an int16 ratio of the box (no reference column)']
CHUNK = 1
WORKERS = 16

BOXVEL = [(1.0, 1.0), (32.0, 3200.0), (2000.0, 208774.9025637363), (500, 7.0),    # the 4th BoxSize is stored as an integer in the header
          (1.0, 50.0), (64.0, 1.0), (1, 0.125)]                                     # exactly one of the two factors is 1 (a "no-op multiply" shortcut must look at the right one)
REFV = [0.0, 1e-3, 0.25, 1.0]
RADII = ('r10', 'r25', 'r33', 'r50', 'r67', 'r75', 'r90', 'r95', 'r98')


def kinds():
    """column -> (kind, raw column, reference raw column or None)"""
    K = {}
    for c in ('com', 'L2com'):
        K[f'x_{c}'] = ('length', f'x_{c}', None)
        K[f'r100_{c}'] = ('length', f'r100_{c}', None)
        K[f'v_{c}'] = ('velocity', f'v_{c}', None)
        for s in ('sigmav3d', 'meanSpeed', 'sigmav3d_r50', 'meanSpeed_r50', 'vcirc_max'):
            K[f'{s}_{c}'] = ('velocity', f'{s}_{c}', None)
        for r in RADII + ('rvcirc_max',):
            K[f'{r}_{c}'] = ('length-ratio', f'{r}_{c}_i16', f'r100_{c}')
        K[f'sigmar_{c}'] = ('length-ratio', f'sigmar_{c}_i16', f'r100_{c}')
        K[f'sigman_{c}'] = ('length-ratio', f'sigman_{c}_i16', None)
        for s, raw in (('sigmavMin', 'sigmavMin'), ('sigmavMaj', 'sigmavMax'), ('sigmavrad', 'sigmavrad'), ('sigmavtan', 'sigmavtan')):
            K[f'{s}_{c}'] = ('velocity-ratio', f'{raw}_to_sigmav3d_{c}_i16', f'sigmav3d_{c}')
        K[f'sigmavMid_{c}'] = ('velocity-derived', None, f'sigmav3d_{c}')
    for so in ('SO', 'SO_L2max'):
        K[f'{so}_central_particle'] = ('length', f'{so}_central_particle', None)
        K[f'{so}_radius'] = ('length', f'{so}_radius', None)
        K[f'{so}_central_density'] = ('unchanged', f'{so}_central_density', None)
    for n in ('id', 'npstartA', 'npstartB', 'npoutA', 'npoutB', 'ntaggedA', 'ntaggedB', 'N', 'L2_N', 'L0_N'):
        K[n] = ('unchanged', n, None)
    return K


CLEAN_UNCHANGED = ['npstartA_merge', 'npstartB_merge', 'npoutA_merge', 'npoutB_merge', 'N_merge', 'haloindex',
                   'is_merged_to', 'N_mainprog', 'vcirc_max_L2com_mainprog', 'sigmav3d_L2com_mainprog',
                   'haloindex_mainprog', 'v_L2com_mainprog']


def cases(tier, seed):
    rots = range(4)
    for bi in range(len(BOXVEL)):
        for rot in rots:
            if tier == 'quick' and rot != (bi + seed) % 4 and not (bi == 1):
                continue
            for cleaned in (True, False):
                yield dict(bi=bi, rot=rot, cleaned=cleaned)
    # request-order sweep: every ratio/derived column together with its reference column, in both orders, and alone
    for bi in (1, 2, 3, 4):
        for cleaned in (True, False):
            yield dict(kind='orders', bi=bi, rot=bi, cleaned=cleaned)


_ENV = None


def worker_init():
    global _ENV
    from vf import catgen
    _ENV = catgen.Env()


def build(bi, rot, box=None, vel=None, nrows=65536):
    from vf import catgen
    if box is None:
        box, vel = BOXVEL[bi]
    n = nrows
    cat = catgen.Catalog([[dict(nA=0, nB=0)] * 0], box=box, velz=vel)
    rows = np.arange(n)
    raw = catgen.fill_values(catgen.raw_layout(), rows)
    cl = catgen.fill_values(catgen.clean_layout(), rows)
    k = 0
    for name, dt, tail in catgen.raw_layout():
        if dt == 'i2':
            ncomp = int(np.prod(tail)) if tail else 1
            cols = []
            for j in range(ncomp):
                mult = 2 * (catgen._h(name) % 1000) + 1 + 2 * j   # odd => permutation of all 65536 values
                cols.append((((rows * mult + 7 * k + j) % 65536) - 32768).astype(np.int16))
                k += 1
            raw[name] = np.stack(cols, axis=1).reshape((n,) + tuple(tail)) if tail else cols[0]
    # the four reference columns get different phases so that a loader using the wrong one is visible
    for j, ref in enumerate(('r100_com', 'sigmav3d_com', 'r100_L2com', 'sigmav3d_L2com')):
        raw[ref] = np.array(REFV, dtype=np.float32)[(rows + rot + j) % 4]
    raw['npstartA'][:] = 0; raw['npstartB'][:] = 0; raw['npoutA'][:] = 0; raw['npoutB'][:] = 0
    cl['N_total'] = (raw['N'] + cl['N_merge']).astype(np.uint32)
    cat.files = {f'halos/{catgen.ZDIR}/halo_info/halo_info_000.asdf': dict(header=cat.header, data=raw),
                 'clean/cleaned_halo_info/cleaned_halo_info_000.asdf': dict(header=cat.clean_header, data=cl)}
    cat.slab_ids = [0]
    return cat, raw, cl


def close32(a, b, ulps=4):
    a = np.asarray(a, dtype=np.float64)
    b = np.asarray(b, dtype=np.float64)
    eps = np.finfo(np.float32).eps
    tol = ulps * eps * np.maximum(np.abs(a), np.abs(b)) + 1e-38
    return (np.abs(a - b) <= tol) | (np.isnan(a) & np.isnan(b))


def fam(col):
    import re
    return re.sub(r'_(L2)?com$', '', col)


def run_orders(case):
    """the unit factors must not depend on which columns are co-requested or in which order"""
    bi, rot, cleaned = case['bi'], case['rot'], case['cleaned']
    box, vel = BOXVEL[bi]
    cat, raw, cl = build(bi, rot)
    zdir, _ = _ENV.mount(cat)
    full = {True: _ENV.load(zdir, cleaned=cleaned, fields='all', convert_units=True).halos,
            False: _ENV.load(zdir, cleaned=cleaned, fields='all', convert_units=False).halos}
    K = kinds()
    probs, nt = [], []
    n = 0
    for col, (kind, rawname, ref) in K.items():
        if ref is None:
            continue
        others = [ref]
        if kind == 'velocity-derived':
            com = col.split('_', 1)[1]
            others = [ref, f'sigmavMin_{com}', f'sigmavMaj_{com}']
        lists = [[col]] + [[col, o] for o in others] + [[o, col] for o in others] + [[col] + others, others + [col]]
        for fl in lists:
            for conv in (True, False):
                h = _ENV.load(zdir, cleaned=cleaned, fields=list(fl), convert_units=conv).halos
                n += 1
                for c in fl:
                    a, b = np.asarray(h[c]), np.asarray(full[conv][c])
                    if a.dtype != b.dtype or not np.array_equal(a, b, equal_nan=True):
                        i = int(np.argmax(~((a == b) | ((a != a) & (b != b))).reshape(len(a), -1).all(axis=1)))
                        probs.append(dict(sig=f'units:request-order:{fam(c)}',
                                          msg=f'Box={box} Vel={vel} cleaned={cleaned} convert_units={conv} fields={fl}: column {c} row {i} = {a[i].tolist()} but {b[i].tolist()} in the all-fields load'))
                nt.append((tuple(fl), conv, cleaned, bi))
    seen = set()
    probs = [p for p in probs if not (p['sig'] in seen or seen.add(p['sig']))]
    return dict(problems=probs, evals=n, nt=nt, extra=dict(order_loads=n))


def run(case):
    if case.get('kind') == 'orders':
        return run_orders(case)
    bi, rot, cleaned = case['bi'], case['rot'], case['cleaned']
    box, vel = BOXVEL[bi]
    # decoys first: in the same process, a catalog with the SAME BoxSize but another VelZSpace_to_kms, and one with the same
    # velocity factor but another BoxSize, are loaded (converted and not) before the catalog under test - nothing may carry over
    for dbox, dvel in ((box, vel * 3 + 1), (float(box) * 2 + 1, vel)):
        dcat, _, _ = build(bi, rot, box=dbox, vel=dvel, nrows=64)
        dz, _ = _ENV.mount(dcat)
        for conv_ in (True, False):
            _ENV.load(dz, cleaned=cleaned, fields='all', convert_units=conv_)
    cat, raw, cl = build(bi, rot)
    zdir, _ = _ENV.mount(cat)
    conv = _ENV.load(zdir, cleaned=cleaned, fields='all', convert_units=True).halos
    unc = _ENV.load(zdir, cleaned=cleaned, fields='all', convert_units=False).halos
    K = kinds()
    probs = []
    nt = []
    nvals = 0
    ncols = 0

    def bad(col, kind, what, mask, a, b):
        i = int(np.argmax(~mask.reshape(len(mask), -1).all(axis=1))) if mask.ndim > 1 else int(np.argmax(~mask))
        probs.append(dict(sig=f'units:{kind}:{fam(col)}:{what}',
                          msg=f'Box={box} Vel={vel} cleaned={cleaned} column {col}: {what}; row {i}: got {np.asarray(a)[i].tolist()} expected {np.asarray(b)[i].tolist()} ({int((~mask).sum())} values off)'))

    for col, (kind, rawname, ref) in K.items():
        if cleaned and col == 'N':
            continue
        if col not in conv.colnames or col not in unc.colnames:
            probs.append(dict(sig='units:column-missing', msg=f'{col} missing'))
            continue
        c, u = np.asarray(conv[col]), np.asarray(unc[col])
        nvals += c.size
        ncols += 1
        if c.dtype != u.dtype:
            probs.append(dict(sig=f'units:{kind}:{fam(col)}:dtype', msg=f'{col}: dtype {c.dtype} vs {u.dtype}'))
        factor = {'length': box, 'length-ratio': box, 'velocity': vel, 'velocity-ratio': vel, 'velocity-derived': vel, 'unchanged': 1.0}[kind]
        if factor != 1.0:
            nt.append((col, bi, rot, cleaned))
        # (a) conversion on vs off differ by exactly the kind's factor
        m = close32(c, np.asarray(u, dtype=np.float64) * factor) if kind != 'unchanged' else (c == u) | ((c != c) & (u != u))
        if kind == 'velocity-derived':
            # sqrt amplifies rounding of the radicand near zero: compare squares relative to sigmav3d^2
            s3 = np.asarray(unc[ref], dtype=np.float64)
            m = (np.abs((np.asarray(c, dtype=np.float64) / factor) ** 2 - np.asarray(u, dtype=np.float64) ** 2) <= 1e-5 * s3 ** 2 + 1e-30) | (np.isnan(c) & np.isnan(u))
        if not m.all():
            bad(col, kind, 'conversion-factor', m, c, np.asarray(u, dtype=np.float64) * factor)
        # (b) stored-unit value against the raw file columns
        if kind in ('length', 'velocity', 'unchanged'):
            r = raw[rawname]
            if u.dtype != r.dtype or not np.array_equal(u, r):
                bad(col, kind, 'stored-value', (u == r), u, r)
        elif kind in ('length-ratio', 'velocity-ratio'):
            r = raw[rawname].astype(np.float64) / 32000.0
            if ref is not None:
                rr = raw[ref].astype(np.float64)
                r = r * (rr.reshape(-1, 1) if r.ndim > 1 else rr)
            m = close32(u, r)
            if not m.all():
                bad(col, kind, 'ratio-value', m, u, r)
            # converted value relative to the converted reference column
            if ref is not None:
                rc = np.asarray(conv[ref], dtype=np.float64)
                e = raw[rawname].astype(np.float64) / 32000.0 * (rc.reshape(-1, 1) if raw[rawname].ndim > 1 else rc)
                e = e * (box / vel if kind == 'length-ratio' and False else 1.0)
                m = close32(c, e, 8)
                if not m.all():
                    bad(col, kind, 'ratio-of-converted-reference', m, c, e)
    # (c) principal dispersions
    for tab, tname, f in ((conv, 'converted', vel), (unc, 'stored', 1.0)):
        for cc in ('com', 'L2com'):
            s3 = np.asarray(tab[f'sigmav3d_{cc}'], dtype=np.float64)
            mn, md, mj = (np.asarray(tab[f'sigmav{w}_{cc}'], dtype=np.float64) for w in ('Min', 'Mid', 'Maj'))
            rad = s3 ** 2 - mn ** 2 - mj ** 2
            healthy = rad >= 1e-3 * s3 ** 2
            healthy &= s3 > 0
            ssum = mn ** 2 + md ** 2 + mj ** 2
            m = ~healthy | (np.abs(ssum - s3 ** 2) <= 2e-5 * s3 ** 2)
            nvals += int(healthy.sum())
            if not m.all():
                i = int(np.argmax(~m))
                probs.append(dict(sig=f'units:principal-dispersions:{tname}',
                                  msg=f'Box={box} Vel={vel} {tname} {cc}: sigmavMin^2+Mid^2+Maj^2={ssum[i]} but sigmav3d^2={s3[i] ** 2} (row {i}; {int((~m).sum())} rows)'))
    if cleaned:
        for col in CLEAN_UNCHANGED:
            c, u = np.asarray(conv[col]), np.asarray(unc[col])
            nvals += c.size
            if not np.array_equal(c, u) or not np.array_equal(u, cl[col]):
                probs.append(dict(sig=f'units:unchanged:{col}', msg=f'{col} changed by loading/conversion'))
        if not np.array_equal(np.asarray(conv['N']), cl['N_total']):
            probs.append(dict(sig='units:unchanged:N_total', msg='N (cleaned) != stored N_total'))
    return dict(problems=probs, evals=ncols, nt=nt, extra=dict(values_checked=nvals, column_comparisons=ncols, loads=2),
                sample=dict(case=case, Box=box, Vel=vel) if rot == 0 and cleaned else None)

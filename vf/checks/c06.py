"""C06 - mass assignment conserves weight and applies the TSC/CIC kernel.

Bounded exhaustive enumeration on the real tsc_parallel / _tsc_scatter / cic_serial / get_field:
every particle of a finite coordinate alphabet (cell centres, half-cell edges as the deposit sees them
(i.e. shifted by the offset), domain boundaries incl. the value Box, +-1 ulp / +-1e-3 cell neighbours, and
with wrap on values up to one box outside) is deposited ALONE on a fresh (or pre-filled) grid embedded in
guard zones and compared cell by cell with the continuous kernel (vf/c06_ref.py).  On top of that:
roll under whole-cell shifts, additivity of all ordered pairs of a reduced alphabet, multi-particle deposits
under every accepted (nthread, npartition, sort, coord) setting, accumulation, in-place wrap of the input,
negative sub-cell offsets (coordinates below -1/2 at the lower faces), supplied grids that are not C-contiguous
(Fortran order, padded view, interior block: the caller's array must gain the deposit, twice), and the same
particles through power_spectrum.get_field.  A second worker pool repeats the reduced
sweeps with NUMBA_BOUNDSCHECK=1.
"""
import os
import warnings

from vf import core

# idle numba/OpenMP pool threads must sleep instead of spinning: the machine is shared with other checks, and a
# spinning pool makes every multi-threaded call wait for a time slice (scheduling only - no effect on results)
os.environ.setdefault('OMP_WAIT_POLICY', 'PASSIVE')
os.environ.setdefault('KMP_BLOCKTIME', '0')

import numpy as np

PID = 'C06'
LEVEL = 'exploration'
RULE = ('per (entry point, grid shape, position dtype, grid dtype, box, offset, weight, nthread/npartition/sort/coord, wrap): '
        'the cartesian product of per-axis coordinate alphabets {k/2 and k/2-offset cells, k=0..2g, each with -+1ulp (thorough also 4ulp) '
        'and -+1e-3 cell neighbours, 0 and Box included; wrap on: -denormal, -1e-3, -1/2, -g(+ulp), -g+1/2, g+ulp, g+1/2, g+1, 2g-ulp, 2g} '
        'as full^3 (small grids) or full on one axis x reduced on the other two, for each axis; one real call per particle; '
        'rolls k in {1,g-1,g} on every axis; all ordered pairs of 64 points x 4 weight pairs; multi-particle sets under every '
        'accepted thread/partition setting; boxes: cell size 1 / integer cell sizes, 2000, 1 (rotated in quick, all in thorough) plus the '
        'smallest integer box whose reciprocal cell size rounds (Box + half cell) above the edge g+1/2. non-trivial = distinct (configuration, wrapped nearest-cell triple) of a deposit '
        'with non-zero weight that went through the cell-wise oracle')
ASSUMPTIONS = [
    'kernel_ref = continuous TSC/CIC window at periodically repeated cell centres, evaluated in long double from the exact input values',
    'tolerance per cell = prod(W_a + delta_a) - prod(W_a) + R*deposit, delta_a = 3 eps_pos (g_a + 2) cells, R = 16 eps_pos + 16 eps_grid; '
    'zero tolerance (bitwise equality with the reference) for coordinates that are multiples of 1/4 cell on a power-of-two cell size',
    'offset in {-3/4, -1/2, -1/4, 0, 1/4, 1/2} of the smallest cell; 3-D grids with >= 2 cells per axis for TSC, (4,4,1) additionally for CIC (TSC on a one-cell-thick grid is tracked in C11)',
    'npartition == n1d//2 > 1 with nthread > 1 is excluded here (C07)',
    'get_field is inverted through its documented normalisation overdens = field/mean - 1; with weights only the shape (proportionality) is compared',
]
DT = {'f4': np.float32, 'f8': np.float64}
CHUNK = 1
WORKERS = 12
ENVS = {'bchk': {'NUMBA_BOUNDSCHECK': '1'}}

CUBES = [2, 3, 4, 5, 6, 8]
ANISO = [(3, 4, 5), (8, 2, 3)]
TSC_SHAPES = [(g, g, g) for g in CUBES] + ANISO
CIC_SHAPES = TSC_SHAPES + [(4, 4, 1)]


def boxes_for(shape):
    if shape[0] == shape[1] == shape[2]:
        return [float(shape[0]), 2000.0, 1.0]
    return [{(3, 4, 5): 120.0, (8, 2, 3): 48.0, (4, 4, 1): 4.0}[tuple(shape)], 2000.0, 1.0]


def tconfigs(n1d):
    """(nthread, npartition) settings to drive.  Whether tsc_parallel accepts a setting is C07's subject: a ValueError
    refusal of any non-default setting is counted (configurations_refused_by_tsc_parallel), never reported."""
    out = [(1, None), (1, 1), (1, 2)]
    for nth in (2, 4):
        out.append((nth, 1))
        if n1d in (6, 8):
            out.append((nth, 2))       # 2 <= n1d//3
        if n1d in (2, 3, 6):
            out.append((nth, None))    # default resolves to a single stripe or to 2 stripes
    if n1d in (2, 3):
        # two stripes narrower than a TSC cloud: the two passes are sequential, so a tree may accept it (it is
        # accepted since the C07 fix) or refuse it with ValueError; if accepted the deposit must be right
        out.append((2, 2))
    return out


def bounds(tier):
    return dict(tsc_shapes=TSC_SHAPES, cic_shapes=CIC_SHAPES, dtypes=['float32', 'float64'], offsets_in_min_cells=[-0.75, -0.5, -0.25, 0, 0.25, 0.5], supplied_grid_layouts=['C', 'F', 'padded [:, :, :n] view', 'interior block'],
                weights=[None, 1, 2.5, 0, 'mix(1,2.5,0,0.5,3)'], nthread=[1, 2, 4], npartition=[None, 1, 2],
                boxes='cell size 1 (cubes) / integer cell sizes (anisotropic), 2000, 1, and per (grid, dtype) the smallest integer box for '
                      'which (Box + half cell) * (g/Box) rounds above g + 1/2', tier=tier)


BOUNDS = bounds


def _case(**kw):
    d = dict(e='tp', shape=None, pdt='f4', gdt=None, box=1.0, offk=0, wk='none', nth=1, npart=None, coord=0, sort=False,
             wrap=True, mode='single', sweep='red', acc=False, darg='arr', lay='C')
    d.update(kw)
    if d['gdt'] is None:
        d['gdt'] = d['pdt']
    d['shape'] = list(d['shape'])
    return d


def uses_partition(c):
    """does this configuration go through partition_parallel (by the documented rules)?"""
    if c['e'] != 'tp':
        return False
    n1d = c['shape'][c['coord']]
    return (c['npart'] or 0) >= 2 or (c['npart'] is None and c['nth'] > 1 and n1d == 6)


def gkey(c):
    """cases that need a rarely used (and slow to compile: no on-disk cache) specialisation of the kernels are run
    together in one task, so that only one worker process compiles it.  Purely a scheduling matter."""
    env = c.get('env') or ''
    if c.get('lay', 'C') != 'C':
        return f"layout:{c['pdt']}:{env}"
    if c['e'] in ('gft', 'gfc'):
        return f"getfield:{c['pdt']}:{env}"
    if uses_partition(c):
        return f"partition:{c['pdt']}:{env}"
    if c['pdt'] != c['gdt']:
        return f"mixed:{c['pdt']}:{env}"
    return None


GROUP_MAX = 160


def cases(tier, seed):
    single = []
    groups = {}
    for c in _cases(tier, seed):
        c['ul'] = 1 if tier == 'quick' else 2
        cs = [c]
        if tier == 'quick' and c['offk'] < 0 and c['lay'] == 'C' and (c['mode'] == 'roll' or (c['mode'] == 'single' and c['sweep'].startswith('axis'))):
            # load balance between the two worker pools: in the quick tier these sweeps run ONLY in the bounds-checking pool
            c['env'] = 'bchk'
        # the reduced sweeps are repeated in a bounds-checking process
        if c['sweep'] in ('red', 'mini') and c['mode'] in ('single', 'pair', 'multi') and (tier != 'quick' or c['offk'] in (2, -3) or c['e'] != 'tp'):
            b = dict(c)
            b['env'] = 'bchk'
            cs.append(b)
        for x in cs:
            k = gkey(x)
            if k is None:
                single.append(x)
            else:
                groups.setdefault(k, []).append(x)
    # the grouped tasks are the longest: hand them out first
    for k in sorted(groups):
        g = groups[k]
        nparts = -(-len(g) // GROUP_MAX)
        for i in range(nparts):
            sub = g[i::nparts]
            d = dict(e='group', mode='group', key=k, part=i, sub=sub)
            if sub[0].get('env'):
                d['env'] = sub[0]['env']
            yield d
    for c in single:
        yield c


def _cases(tier, seed):
    Q = tier == 'quick'
    rot = seed
    # ------------------------------------------------------------------ A. single-particle sweeps, tsc_parallel
    for si, shape in enumerate(TSC_SHAPES):
        bxs = boxes_for(shape)
        for pdt in ('f4', 'f8'):
            for offk in (0, 1, 2):
                blist = [bxs[(si + offk + (pdt == 'f8') + rot) % 3]] if Q else bxs
                for box in blist:
                    for a in range(3):
                        yield _case(e='tp', shape=shape, pdt=pdt, box=box, offk=offk, sweep=f'axis{a}m' if Q else f'axis{a}', acc=(a == 1))
                    ncell = shape[0] * shape[1] * shape[2]
                    if (Q and ncell == 8 and box == bxs[0]) or (not Q and (ncell <= 27 or shape[0] != shape[1]) and box == bxs[(si + offk) % 3]):
                        yield _case(e='tp', shape=shape, pdt=pdt, box=box, offk=offk, sweep='cube')
    # ------------------------------------------------------------------ A'. the same with a box size whose reciprocal cell size
    # rounds so that (Box + half cell) * (g / Box) lands ABOVE g + 1/2 in the position dtype
    from vf import c06_ref as R
    for si, shape in enumerate(TSC_SHAPES):
        for pdt in ('f4', 'f8'):
            box = R.overshoot_box(max(shape), DT[pdt])
            if box is None:
                continue
            for offk in (2,) if Q else (1, 2):
                for a in range(3):
                    yield _case(e='tp', shape=shape, pdt=pdt, box=box, offk=offk, sweep=f'axis{a}m', acc=(a == 1), rb=1)
                yield _case(e='tp', shape=shape, pdt=pdt, box=box, offk=offk, sweep='red', rb=1)
                yield _case(e='tp', shape=shape, pdt=pdt, box=box, offk=offk, sweep='red', wrap=False, wk='2.5', rb=1)
                yield _case(e='ts', shape=shape, pdt=pdt, box=box, offk=offk, sweep='red', wrap=False, rb=1)
                if shape[0] == shape[1]:
                    yield _case(e='gft', shape=shape, pdt=pdt, box=box, offk=offk, sweep='mini', rb=1)
    # ------------------------------------------------------------------ A". NEGATIVE sub-cell offsets (-1/4, -1/2, -3/4 of the smallest cell):
    # particles within |offset| of the lower faces have (pos+offset)/h < 0, down to < -1/2 (nearest cell -1 == g-1)
    for si, shape in enumerate(TSC_SHAPES):
        bxs = boxes_for(shape)
        cube = shape[0] == shape[1]
        for pdt in ('f4', 'f8'):
            for offk in (-1, -2, -3):
                blist = [bxs[(si - offk + (pdt == 'f8') + rot) % 3]] if Q else bxs
                for box in blist:
                    for a in range(3):
                        if Q and offk == -1 and a != (si % 3):
                            continue        # quick: -1/4 cell never reaches coordinate -1/2; one axis only (all three in thorough)
                        yield _case(e='tp', shape=shape, pdt=pdt, box=box, offk=offk, sweep=f'axis{a}m' if Q else f'axis{a}', acc=(a == 1))
                    if not Q and shape[0] * shape[1] * shape[2] <= 27 and box == bxs[(si - offk) % 3]:
                        yield _case(e='tp', shape=shape, pdt=pdt, box=box, offk=offk, sweep='cube')
                box = bxs[(si - offk + 1) % 3]
                yield _case(e='ts', shape=shape, pdt=pdt, box=box, offk=offk, sweep='red', wrap=False, acc=(offk == -2))
                yield _case(e='tp', shape=shape, pdt=pdt, box=box, offk=offk, sweep='red', wrap=False, wk='2.5')
                yield _case(e='tp', shape=shape, pdt=pdt, box=bxs[(si - offk + 2) % 3], offk=offk, sweep='red', wk='1' if offk == -1 else 'none')
                for wrap in (True, False):
                    if Q and (offk != -3 or wrap != (si % 2 == 0)):
                        continue
                    for a in range(3):
                        yield _case(shape=shape, pdt=pdt, box=bxs[(si + a + wrap) % 3], offk=offk, wrap=wrap, mode='roll', sweep=f'axis{a}m', coord=a)
                if not Q or offk == -3:
                    yield _case(shape=shape, pdt=pdt, box=bxs[(si - offk) % 3], offk=offk, mode='pair', sweep='mini', wrap=False)
                for k, (nth, npart) in enumerate(tconfigs(shape[0])):
                    if Q and offk != -3 and k % 3 != (-offk) % 3:
                        continue
                    yield _case(shape=shape, pdt=pdt, box=bxs[(k - offk) % 3], offk=offk, mode='multi', sweep='red', wk='mix',
                                nth=nth, npart=npart, sort=(k % 2 == 1), acc=(k % 2 == 0))
                if cube and not (Q and offk == -2):
                    gi = CUBES.index(shape[0])
                    for wk in ('none', '2.5'):
                        k = gi - offk + (wk != 'none')
                        yield _case(e='gft', shape=shape, pdt=pdt, box=bxs[k % 3], offk=offk, wk=wk, sweep='mini')
                        yield _case(e='gfc', shape=shape, pdt=pdt, box=bxs[(k + 1) % 3], offk=offk, wk=wk, sweep='mini', wrap=False)
                    yield _case(e='gft', shape=shape, pdt=pdt, box=bxs[-offk % 3], offk=offk, wk='mix', sweep='red', mode='multi')
                    yield _case(e='gfc', shape=shape, pdt=pdt, box=bxs[-offk % 3], offk=offk, wk='mix', sweep='red', mode='multi', wrap=False)
    # ------------------------------------------------------------------ H. supplied grids that are NOT C-contiguous: Fortran order, the
    # [:, :, :n] view of a padded buffer, an interior block of a larger array.  The caller's array must gain the deposit.
    for si, shape in enumerate(CIC_SHAPES):
        bxs = boxes_for(shape)
        for pdt in ('f4', 'f8'):
            for li, lay in enumerate(('F', 'pad', 'block')):
                k = si + li + (pdt == 'f8')
                if shape[2] > 1:
                    yield _case(e='tp', shape=shape, pdt=pdt, box=bxs[k % 3], offk=(k % 6) - 3, wk='2.5' if k % 2 else 'none',
                                mode='lay', sweep='mini', lay=lay, acc=(k % 2 == 0))
                    yield _case(e='tp', shape=shape, pdt=pdt, box=bxs[(k + 1) % 3], offk=((k + 2) % 6) - 3, wk='none' if k % 2 else '1',
                                mode='lay', sweep='mini', lay=lay, acc=(k % 2 == 1), wrap=False)
                    yield _case(e='ts', shape=shape, pdt=pdt, box=bxs[(k + 2) % 3], offk=((k + 4) % 6) - 3, wk='none' if k % 2 else '2.5',
                                mode='lay', sweep='mini', lay=lay, acc=(k % 2 == 0), wrap=False)
                yield _case(e='cic', shape=shape, pdt=pdt, box=bxs[k % 3], wk='2.5' if k % 2 else 'none', mode='lay', sweep='mini',
                            lay=lay, acc=(k % 2 == 1), wrap=False)
    # ------------------------------------------------------------------ B. _tsc_scatter directly, cic_serial
    for si, shape in enumerate(TSC_SHAPES):
        bxs = boxes_for(shape)
        for pdt in ('f4', 'f8'):
            for offk in (0, 1, 2):
                box = bxs[(si + offk + rot + 1) % 3]
                if Q:
                    yield _case(e='ts', shape=shape, pdt=pdt, box=box, offk=offk, sweep='red', wrap=False, acc=(offk == 1))
                else:
                    for a in range(3):
                        yield _case(e='ts', shape=shape, pdt=pdt, box=box, offk=offk, sweep=f'axis{a}', wrap=False, acc=(a == 1))
            for gdt in (('f4', 'f8') if not Q else ()):
                if gdt != pdt:
                    yield _case(e='ts', shape=shape, pdt=pdt, gdt=gdt, box=bxs[1], offk=1, sweep='red', wrap=False, wk='2.5')
    for si, shape in enumerate(CIC_SHAPES):
        bxs = boxes_for(shape)
        for pdt in ('f4', 'f8'):
            for bi, box in enumerate(bxs):
                if Q and bi != (si + rot + (pdt == 'f8')) % 3:
                    continue
                for a in range(3):
                    yield _case(e='cic', shape=shape, pdt=pdt, box=box, sweep=f'axis{a}m' if Q else f'axis{a}', wrap=False, acc=(a == 1))
                if shape[0] * shape[1] * shape[2] <= (8 if Q else 27) or (not Q and shape[0] != shape[1]):
                    yield _case(e='cic', shape=shape, pdt=pdt, box=box, sweep='cube', wrap=False)
            for wk in ('1', '2.5', '0'):
                yield _case(e='cic', shape=shape, pdt=pdt, box=bxs[(si + 1) % 3], sweep='red', wrap=False, wk=wk, acc=(wk == '2.5'))
            gdt = 'f8' if pdt == 'f4' else 'f4'
            yield _case(e='cic', shape=shape, pdt=pdt, gdt=gdt, box=bxs[1], sweep='red', wrap=False, wk='2.5')
    # ------------------------------------------------------------------ C. configuration sweeps on the reduced alphabet
    for si, shape in enumerate(TSC_SHAPES):
        bxs = boxes_for(shape)
        coords = (0,) if shape[0] == shape[1] else (0, 1, 2)
        for pdt in ('f4', 'f8'):
            if Q:
                k = 0
                for wk in ('1', '2.5', '0'):
                    for wrap in (True, False):
                        k += 1
                        yield _case(shape=shape, pdt=pdt, box=bxs[k % 3], offk=(k + si) % 3, wk=wk, wrap=wrap, acc=(k % 2 == 0))
                for coord in coords:
                    for k, (nth, npart) in enumerate(tconfigs(shape[coord])):
                        if (nth, npart, coord) == (1, None, 0):
                            continue
                        yield _case(shape=shape, pdt=pdt, box=bxs[k % 3], offk=(k + si) % 3, wk='2.5' if k % 2 else 'none',
                                    nth=nth, npart=npart, coord=coord, sort=(k % 3 == 2), acc=(k % 2 == 1),
                                    sweep='red' if nth == 1 else 'mini')
            else:
                for coord in coords:
                    for (nth, npart) in tconfigs(shape[coord]):
                        for sort in ((False, True) if (npart == 2 or npart is None) else (False,)):
                            for wk in ('none', '1', '2.5', '0'):
                                for wrap in (True, False):
                                    for offk in (0, 1, 2):
                                        k = offk + (wk == '2.5') + nth
                                        yield _case(shape=shape, pdt=pdt, box=bxs[k % 3], offk=offk, wk=wk, wrap=wrap, nth=nth,
                                                    npart=npart, coord=coord, sort=sort, acc=(wk in ('1', '0')),
                                                    sweep='red' if nth == 1 else 'mini')
            gdt = 'f8' if pdt == 'f4' else 'f4'
            for k, wk in enumerate(('none', '2.5')):
                yield _case(shape=shape, pdt=pdt, gdt=gdt, box=bxs[(si + k) % 3], offk=1 + k, wk=wk, acc=bool(k))
            # grid allocated by tsc_parallel itself (float32)
            yield _case(shape=shape, pdt=pdt, gdt='f4', box=bxs[si % 3], offk=2, darg='tuple')
            if shape[0] == shape[1]:
                yield _case(shape=shape, pdt=pdt, gdt='f4', box=bxs[(si + 1) % 3], offk=1, darg='int', wk='2.5')
    # ------------------------------------------------------------------ D. rolls
    for si, shape in enumerate(TSC_SHAPES):
        bxs = boxes_for(shape)
        for pdt in ('f4', 'f8'):
            for offk in (0, 1, 2):
                for wrap in (True, False):
                    if Q and (wrap != ((si + offk) % 2 == 0) or offk == (si + 1) % 3):
                        continue
                    for bi, box in enumerate(bxs):
                        if bi != (si + offk + wrap + rot) % 3 and (Q or bi != 0):
                            continue
                        for a in range(3):
                            yield _case(shape=shape, pdt=pdt, box=box, offk=offk, wrap=wrap, mode='roll', sweep=f'axis{a}m', coord=a)
    for si, shape in enumerate(CIC_SHAPES):
        bxs = boxes_for(shape)
        for pdt in ('f4', 'f8'):
            for bi, box in enumerate(bxs):
                if Q and bi != (si + rot) % 3:
                    continue
                for a in range(3):
                    if shape[a] > 1:
                        yield _case(e='cic', shape=shape, pdt=pdt, box=box, wrap=False, mode='roll', sweep=f'axis{a}m', coord=a)
    # ------------------------------------------------------------------ E. pairs (additivity), F. multi-particle sets
    for si, shape in enumerate(TSC_SHAPES):
        bxs = boxes_for(shape)
        for pdt in ('f4', 'f8'):
            cfgs = [(1, None, False)]
            if shape[0] in (6, 8):
                cfgs += [(2, 2, False), (1, 2, True)] + ([(4, 2, True)] if not Q else [])
            for k, (nth, npart, sort) in enumerate(cfgs):
                for offk in ((si + k) % 3,) if Q else (0, 1, 2):
                    yield _case(shape=shape, pdt=pdt, box=bxs[(si + k + offk) % 3], offk=offk, mode='pair', sweep='mini', wrap=False,
                                nth=nth, npart=npart, sort=sort)
            coords = (0,) if shape[0] == shape[1] else (0, 1, 2)
            for coord in coords:
                for k, (nth, npart) in enumerate(tconfigs(shape[coord])):
                    for sort in (False, True):
                        for offk in ((si + k) % 3,) if Q else (0, 1, 2):
                            yield _case(shape=shape, pdt=pdt, box=bxs[(k + offk) % 3], offk=offk, mode='multi', sweep='red', wk='mix',
                                        nth=nth, npart=npart, sort=sort, coord=coord, acc=(k % 2 == 1))
    for si, shape in enumerate(CIC_SHAPES):
        bxs = boxes_for(shape)
        for pdt in ('f4', 'f8'):
            yield _case(e='cic', shape=shape, pdt=pdt, box=bxs[si % 3], mode='pair', sweep='mini', wrap=False)
            yield _case(e='cic', shape=shape, pdt=pdt, box=bxs[(si + 1) % 3], mode='multi', sweep='red', wk='mix', wrap=False, acc=True)
    # ------------------------------------------------------------------ G. through power_spectrum.get_field
    for gi, g in enumerate(CUBES):
        shape = (g, g, g)
        bxs = boxes_for(shape)
        for pdt in ('f4', 'f8'):
            for offk in (0, 1, 2):
                for wk in ('none', '2.5'):
                    k = gi + offk + (wk != 'none')
                    nth = 2 if (g in (2, 3, 6) and k % 2) else 1
                    yield _case(e='gft', shape=shape, pdt=pdt, box=bxs[k % 3], offk=offk, wk=wk, sweep='mini', nth=nth)
                    yield _case(e='gfc', shape=shape, pdt=pdt, box=bxs[(k + 1) % 3], offk=offk, wk=wk, sweep='mini', wrap=False)
                yield _case(e='gft', shape=shape, pdt=pdt, box=bxs[offk], offk=offk, wk='mix', sweep='red', mode='multi')
                yield _case(e='gfc', shape=shape, pdt=pdt, box=bxs[offk], offk=offk, wk='mix', sweep='red', mode='multi', wrap=False)
                yield _case(e='gft', shape=shape, pdt=pdt, box=bxs[offk], offk=offk, wk='none', sweep='red', mode='multi')
            gdt = 'f8' if pdt == 'f4' else 'f4'
            yield _case(e='gft', shape=shape, pdt=pdt, gdt=gdt, box=bxs[1], offk=2, sweep='mini')


# ============================================================================================== execution
_M = {}


def worker_init():
    warnings.simplefilter('ignore')
    from abacusnbody.analysis import tsc, cic
    _M['tsc'] = tsc
    _M['cic'] = cic


def _ps():
    if 'ps' not in _M:
        from abacusnbody.analysis import power_spectrum as ps
        _M['ps'] = ps
    return _M['ps']


WVAL = {'1': 1.0, '2.5': 2.5, '0': 0.0}
MIX = [1.0, 2.5, 0.0, 0.5, 3.0]


class Rejected(Exception):
    """tsc_parallel refused a thread/partition setting it is allowed to refuse (acceptance is C07's subject)"""


class Ctx:
    def __init__(self, c):
        from vf import c06_ref as R
        self.R = R
        self.c = c
        self.e = c['e']
        self.kind = 'cic' if self.e in ('cic', 'gfc') else 'tsc'
        self.shape = tuple(c['shape'])
        self.ft = DT[c['pdt']]
        self.gt = DT[c['gdt']]
        self.box = float(c['box'])
        hmin = self.box / max(self.shape)
        self.offset = float(self.ft(hmin * 0.25 * c['offk']))
        if self.e == 'cic':
            assert c['offk'] == 0
        self.lay = c.get('lay', 'C')
        self.wrap = bool(c['wrap'])
        self.ncell = int(np.prod(self.shape))
        self.G = 2 * self.shape[1] * self.shape[2] + 8
        i, j, k = np.meshgrid(*[np.arange(g) for g in self.shape], indexing='ij')
        self.base = (0.25 * ((3 * i + 5 * j + 7 * k) % 7)).astype(np.float64) if c['acc'] else np.zeros(self.shape)
        self.problems = {}
        self.extra = dict(deposits=0, cells=0, cells_exact=0, cells_untouched=0, calls=0)
        self.worst = 0.0
        self.nt = set()
        self.cfgkey = '|'.join(str(c[k]) for k in ('e', 'shape', 'pdt', 'gdt', 'box', 'offk', 'wk', 'nth', 'npart', 'coord', 'sort', 'wrap', 'acc', 'darg', 'lay'))
        self.bchk = c.get('env') == 'bchk'
        # the deposit writes 3 cells per axis: on a 2-cell axis two of them are the same cell -> several roundings per cell
        self.nadds = int(np.prod([-(-3 // g) for g in self.shape]))

    def acc_tol(self, hi):
        """rounding of `grid += deposit` into a pre-filled grid: half an ulp of the running value per addition"""
        if not self.c['acc']:
            return 0.0
        return (self.nadds + 1) * float(np.finfo(self.gt).eps) * (np.abs(self.base) + hi)

    def klass(self, rf, i):
        """input class of a failing particle, from its exact coordinates: is it within rounding of the half-cell edge
        1/2 (mod g) - i.e. g + 1/2 for a particle at the top of the box - on an axis that has only two cells
        (where the cells ix-1, ix, ix+1 of a coordinate rounded up to g+1 reach index 2g: one right-wrap is not enough)?"""
        for a, g in enumerate(self.shape):
            d = float((rf.u[a][i] - np.longdouble(0.5)) % g)
            if g == 2 and min(d, g - d) <= 1e-5:
                return ':top-edge-of-2-cell-axis'
        return ''

    def prob(self, sig, msg):
        sig = f'{self.e}:{sig}'
        if sig not in self.problems:
            self.problems[sig] = dict(sig=sig, msg=msg + f'\n  config: {self.describe()}')

    def describe(self):
        c = self.c
        return (f"entry={c['e']} grid={self.shape} pos={self.ft.__name__} grid_dtype={self.gt.__name__} box={self.box} offset={self.offset!r} "
                f"weights={c['wk']} nthread={c['nth']} npartition={c['npart']} coord={c['coord']} sort={c['sort']} wrap={self.wrap} "
                f"accumulate={c['acc']} densgrid_arg={c['darg']}")

    def weights(self, n):
        wk = self.c['wk']
        if wk == 'none':
            return None
        if wk == 'mix':
            return np.array([MIX[i % 5] for i in range(n)], dtype=self.ft)
        return np.full(n, WVAL[wk], dtype=self.ft)

    # ------------------------------------------------------------------ real calls
    def new_buf(self, n):
        buf = np.empty((n, 2 * self.G + self.ncell), dtype=self.gt)
        buf[:, :self.G] = -0.0
        buf[:, self.G + self.ncell:] = -0.0
        buf[:, self.G:self.G + self.ncell] = self.base.ravel().astype(self.gt)
        return buf

    def grid(self, buf, i):
        return buf[i, self.G:self.G + self.ncell].reshape(self.shape)

    def check_guard(self, buf, P0, what, rf=None):
        g = np.concatenate([buf[:, :self.G], buf[:, self.G + self.ncell:]], axis=1)
        ok = np.signbit(g) & (g == 0)
        if not ok.all():
            i = int(np.nonzero(~ok.all(axis=1))[0][0])
            j = int(np.nonzero(~ok[i])[0][0])
            j = j - self.G if j < self.G else j - self.G + self.ncell
            self.prob('oob-guard' + (self.klass(rf, i) if rf is not None else ''), f'{what}: write outside the grid (flat offset {j} of a {self.ncell}-cell grid, value {g[i][~ok[i]][0]!r}) '
                                   f'for particle {P0[i].tolist() if P0.ndim == 2 else P0.tolist()}')

    def call(self, p, grid, w):
        """one real call; p (n,3) writable, grid ndarray (or shape for darg), w (n,) or None. returns the grid"""
        c = self.c
        e = self.e
        self.extra['calls'] += 1
        if e == 'tp':
            try:
                r = _M['tsc'].tsc_parallel(p, grid, self.box, weights=w, nthread=c['nth'], wrap=self.wrap, npartition=c['npart'],
                                           sort=c['sort'], coord=c['coord'], offset=self.offset)
            except ValueError as ex:
                # which (n1d, nthread, npartition) settings are safe to accept is C07's subject: a refusal of any
                # non-default setting is counted, never a C06 violation (the plain serial default must work)
                if c['nth'] > 1 or c['npart'] is not None:
                    raise Rejected(str(ex))
                raise
            if isinstance(grid, np.ndarray) and r is not grid:
                self.prob('return', 'tsc_parallel did not return the supplied grid')
            return r
        if e == 'ts':
            # private kernel reached by name and positional signature: if either is gone the DRIVER is stale, not the property
            fn = getattr(_M['tsc'], '_tsc_scatter', None)
            if fn is None:
                raise core.Stale('abacusnbody.analysis.tsc has no _tsc_scatter any more (private kernel renamed/removed)')
            try:
                fn(p, grid, self.box, w, self.offset)
            except TypeError as ex:
                why = core.stale_reason(ex)
                if why:
                    raise core.Stale(why)
                raise
            return grid
        if e == 'cic':
            _M['cic'].cic_serial(p, grid, self.box, w)
            return grid
        raise AssertionError(e)

    def deposit_singles(self, pos, w, what='single', rf=None):
        """each particle alone -> out (n,*shape) float64 = grid - base ; raw (n,*shape) in grid dtype"""
        n = len(pos)
        c = self.c
        P = pos.copy()
        if self.e in ('gft', 'gfc'):
            return self.getfield_singles(pos, P, w)
        if c['darg'] != 'arr':
            raw = np.empty((n,) + self.shape, dtype=np.float32)
            arg = self.shape if c['darg'] == 'tuple' else int(self.shape[0])
            for i in range(n):
                r = self.call(P[i:i + 1], arg, None if w is None else w[i:i + 1])
                if r.shape != self.shape or r.dtype != np.float32:
                    self.prob('alloc', f'allocated grid has shape {r.shape} dtype {r.dtype}')
                    return None, None
                raw[i] = r
            self.check_pos(pos, P)
            return raw.astype(np.float64), raw
        buf = self.new_buf(n)
        try:
            for i in range(n):
                self.call(P[i:i + 1], self.grid(buf, i), None if w is None else w[i:i + 1])
        except (IndexError, SystemError) as ex:
            self.prob('oob-boundscheck' + (self.klass(rf, i) if rf is not None else ''),
                      f'{what}: {type(ex).__name__}: {ex} for particle {[repr(float(x)) for x in pos[i]]}'
                                         + (f' weight {w[i]}' if w is not None else ''))
            return None, None
        self.check_guard(buf, pos, what, rf)
        self.check_pos(pos, P)
        raw = buf[:, self.G:self.G + self.ncell].reshape((n,) + self.shape)
        return raw.astype(np.float64) - self.base, raw

    def check_pos(self, pos, P):
        """what tsc_parallel(wrap=True) may do to the caller's positions: leave them alone (wrap done on a copy - only
        counted: the property is about the grid) or replace a coordinate by ANY value congruent to it modulo Box that lies
        in [0, Box] (one subtraction, x % box, ... - all the same particle).  Anything else written into the caller's
        array is a broken periodic wrap.  The other entry points must not touch their input."""
        if self.e == 'tp' and self.wrap:
            p = pos.astype(np.longdouble)
            box = np.longdouble(self.box)
            inside = (p >= 0) & (p < box)
            self.extra['wrapped'] = self.extra.get('wrapped', 0) + int((~inside).sum())
            changed = ~((P == pos) | (np.isnan(P) & np.isnan(pos)))
            left = (~inside) & ~changed & ~((p >= 0) & (p <= box))
            if left.any():
                self.extra['left_unwrapped'] = self.extra.get('left_unwrapped', 0) + int(left.sum())
            if changed.any():
                Pl = P.astype(np.longdouble)
                d = Pl - p
                k = np.rint(d / box)
                ulp = 2 * np.spacing(np.maximum(np.abs(P), self.ft(min(self.box, float(np.finfo(self.ft).max)))).astype(self.ft)).astype(np.longdouble)
                bad = changed & ~((np.abs(d - k * box) <= ulp) & (Pl >= 0) & (Pl <= box))
                if bad.any():
                    i = int(np.nonzero(bad.any(axis=1))[0][0])
                    self.prob('wrap-inplace', f'position {pos[i].tolist()} was overwritten with {P[i].tolist()}, which is not the same point modulo the box {self.box} brought into [0, box]')
        else:
            if not np.array_equal(P, pos):
                i = int(np.nonzero((P != pos).any(axis=1))[0][0])
                self.prob('input-modified', f'position {pos[i].tolist()} was changed to {P[i].tolist()}')

    # ------------------------------------------------------------------ oracles
    def make_ref(self, pos, w):
        return self.R.Ref(self.kind, self.shape, self.box, self.offset, pos, w, self.ft, self.gt, self.wrap)

    def fmt(self, pos, w, got, ref, tol):
        idx = np.argwhere((np.abs(got - ref) > tol) | ~np.isfinite(got))[:6]
        s = [f'cell {tuple(int(x) for x in ix)}: got {got[tuple(ix)]!r} expected {ref[tuple(ix)]!r} (tol {tol[tuple(ix)]:.3g})' for ix in idx]
        u = [float((np.longdouble(x) + np.longdouble(self.offset)) * g / np.longdouble(self.box)) for x, g in zip(pos, self.shape)]
        return (f'particle {[repr(float(x)) for x in pos]} (cell units incl. offset: {u}) weight {None if w is None else float(w)}\n  '
                + '\n  '.join(s))

    def check_singles(self, pos, w, what='single', ref=None):
        """deposit each particle alone and evaluate the whole per-deposit oracle. returns (out, Ref, raw)"""
        n = len(pos)
        rf = ref or self.make_ref(pos, w)
        out, raw = self.deposit_singles(pos, w, what, rf)
        if out is None:
            return None, rf, None
        self.extra['deposits'] += n
        gf = self.e in ('gft', 'gfc')
        step = max(1, (1 << 18) // self.ncell)
        W = rf.W
        eps = max(float(np.finfo(self.ft).eps), float(np.finfo(self.gt).eps))
        for s in range(0, n, step):
            sl = slice(s, min(n, s + step))
            ref_, tol, hi = rf.cells(sl)
            o = out[sl]
            if gf:
                tol = tol + 8 * float(np.finfo(self.gt).eps) * (1.0 / self.ncell + hi)
            elif self.c['acc']:
                tol = tol + (tol > 0) * self.acc_tol(hi)
            d = np.abs(o - ref_)
            bad = ~(d <= tol)
            self.extra['cells'] += int(d.size)
            self.extra['cells_exact'] += int(((tol == 0) & (hi > 0)).sum())
            self.extra['cells_untouched'] += int((hi == 0).sum())
            with np.errstate(divide='ignore', invalid='ignore'):
                q = np.where(tol > 0, d / tol, 0.0)
            self.worst = max(self.worst, float(q[~bad].max()) if (~bad).any() else 0.0)
            if bad.any():
                i = int(np.nonzero(bad.reshape(len(o), -1).any(axis=1))[0][0])
                exact = bool(rf.clean[sl][i]) and not gf
                outside = bool((hi[i][bad[i]] == 0).all())
                sub = 'stray-deposit' if outside else ('kernel-exact' if exact else 'kernel')
                self.prob(sub + self.klass(rf, s + i), f'{what}: deposit differs from the {self.kind.upper()} kernel: '
                          + self.fmt(pos[s + i], None if w is None else w[s + i], o[i], ref_[i], tol[i]))
            # conservation
            tot = o.reshape(len(o), -1).astype(np.longdouble).sum(axis=1).astype(np.float64)
            ttol = 64 * eps * np.abs(W[sl]) + (float(np.sum(self.acc_tol(0.0))) if self.c['acc'] else 0.0)
            if gf:
                ttol = ttol + 16 * eps * max(1.0, float(np.abs(W[sl]).max()))
            tb = ~(np.abs(tot - W[sl]) <= ttol)
            if tb.any():
                i = int(np.nonzero(tb)[0][0])
                self.prob('total' + self.klass(rf, s + i), f'{what}: grid total {tot[i]!r} != weight {W[sl][i]!r} for particle {pos[s + i].tolist()}')
            # non-negativity (exact), on the raw grid where nothing was pre-filled
            if raw is not None and not self.c['acc']:
                r = raw[sl]
                neg = ~(r >= 0) & (W[sl] >= 0)[:, None, None, None]
                if neg.any():
                    i = int(np.nonzero(neg.reshape(len(o), -1).any(axis=1))[0][0])
                    self.prob('negative' + self.klass(rf, s + i), f'{what}: negative/NaN cell {r[i][neg[i]][0]!r} for particle {pos[s + i].tolist()} weight {W[sl][i]}')
        nz = W != 0
        if nz.any():
            near = rf.nearest()[nz]
            for t in set(map(tuple, near.tolist())):
                self.nt.add(self.cfgkey + '|%d,%d,%d' % t)
        return out, rf, raw

    # ------------------------------------------------------------------ get_field
    def getfield_singles(self, pos, P, w):
        ps = _ps()
        n = len(pos)
        g = self.shape[0]
        paste = 'TSC' if self.e == 'gft' else 'CIC'
        out = np.empty((n,) + self.shape, dtype=np.float64)
        for i in range(n):
            wi = None if w is None else w[i:i + 1]
            self.extra['calls'] += 1
            f = ps.get_field(P[i:i + 1], self.box, g, paste, w=wi, d=self.offset, nthread=self.c['nth'], dtype=self.gt)
            if f.shape != self.shape or f.dtype != self.gt:
                self.prob('alloc', f'get_field returned shape {f.shape} dtype {f.dtype}')
                return None, None
            out[i] = self.invert_field(f, 1, None if w is None else float(w[i]))
        if self.e == 'gfc':
            if not np.array_equal(P, pos):
                self.prob('input-modified', 'get_field(CIC) changed the caller\'s positions')
        return out, None

    def invert_field(self, f, n, wtot):
        """overdensity -> deposited grid.  Unweighted: the documented convention field/mean - 1 with mean = N/ncell.
        Weighted: only the shape is used (normalised to the total weight); which normalisation get_field applies is counted."""
        dens = f.astype(np.float64) + 1.0
        s = float(dens.sum())
        if wtot is None:
            return dens * (n / self.ncell)
        if abs(s - self.ncell * wtot / n) <= 1e-4 * self.ncell * max(1.0, abs(wtot) / n):
            k = 'gf_norm_by_count'
        elif abs(s - self.ncell) <= 1e-4 * self.ncell:
            k = 'gf_norm_by_weight'
        else:
            k = 'gf_norm_other'
        self.extra[k] = self.extra.get(k, 0) + 1
        if s == 0 or wtot == 0:
            return dens * (n / self.ncell)
        return dens * (wtot / s)


def run_single(cx):
    c = cx.c
    pos = cx.R.sweep_positions(cx.shape, cx.box, cx.offset, cx.ft, c['sweep'], cx.wrap, c.get('ul', 1))
    w = cx.weights(len(pos))
    step = 4096
    sample = None
    for s in range(0, len(pos), step):
        out, rf, raw = cx.check_singles(pos[s:s + step], None if w is None else w[s:s + step])
        if sample is None and out is not None:
            i = len(out) // 2
            ref_, tol, _ = rf.cells(slice(i, i + 1))
            nzc = np.argwhere(ref_[0] != 0)[:4]
            sample = dict(config=cx.describe(), particle=[float(x) for x in pos[s + i]],
                          cells={str(tuple(int(x) for x in ix)): dict(got=float(out[i][tuple(ix)]), kernel_ref=float(ref_[0][tuple(ix)])) for ix in nzc})
    return sample


def run_roll(cx):
    """G(p + k h e_a) == roll(G(p), k, a), k in {1, g-1, g}; the shifted particle is itself put through the full oracle"""
    c = cx.c
    a = c['coord']
    g = cx.shape[a]
    h = cx.box / g
    pos = cx.R.sweep_positions(cx.shape, cx.box, cx.offset, cx.ft, c['sweep'], cx.wrap, 1)
    w = cx.weights(len(pos))
    step = 4096
    for s in range(0, len(pos), step):
        p0 = pos[s:s + step]
        A, rfA, _ = cx.check_singles(p0, None if w is None else w[s:s + step], 'roll-base')
        if A is None:
            return
        refA, tolA, _ = None, None, None
        for k in sorted({1, g - 1, g}):
            p1 = p0.copy()
            x = p0[:, a].astype(np.float64) + k * h
            lim = 2 * cx.box if cx.wrap else cx.box
            x = np.where((x >= lim) if cx.wrap else (x > lim), x - cx.box, x)
            if cx.wrap:
                x = np.where(x >= lim, x - cx.box, x)
            p1[:, a] = x.astype(cx.ft)
            if not cx.wrap:
                # rounding of the shifted coordinate must not leave the domain
                p1[:, a] = np.minimum(p1[:, a].astype(np.float64), cx.box).astype(cx.ft)
            B, rfB, _ = cx.check_singles(p1, None if w is None else w[s:s + step], f'roll-shifted(k={k})')
            if B is None:
                return
            stepn = max(1, (1 << 18) // cx.ncell)
            for t in range(0, len(p0), stepn):
                sl = slice(t, min(len(p0), t + stepn))
                ra, ta, _ = rfA.cells(sl)
                rb, tb, _ = rfB.cells(sl)
                rolled = np.roll(A[sl], k, axis=1 + a)
                tol = np.roll(ta, k, axis=1 + a) + tb + np.abs(np.roll(ra, k, axis=1 + a) - rb)
                if c['acc']:
                    tol = tol + 2 * cx.acc_tol(1.0)
                bad = ~(np.abs(rolled - B[sl]) <= tol)
                cx.extra['rolls'] = cx.extra.get('rolls', 0) + len(rolled)
                cx.extra['rolls_exact'] = cx.extra.get('rolls_exact', 0) + int((tol.reshape(len(rolled), -1).max(axis=1) == 0).sum())
                if bad.any():
                    i = int(np.nonzero(bad.reshape(len(rolled), -1).any(axis=1))[0][0])
                    cx.prob('roll', f'G(p + {k} cells along axis {a}) != roll(G(p), {k}): p={p0[t + i].tolist()} shifted={p1[t + i].tolist()}: '
                            + cx.fmt(p1[t + i], None, B[sl][i], rolled[i], tol[i]))


def layout_grid(cx, lay):
    """a supplied grid that is not C-contiguous, embedded in a larger buffer filled with -0.0. returns (buffer, view, mask of the view)"""
    gx, gy, gz = cx.shape
    if lay == 'F':
        B = np.full(cx.ncell + 2 * cx.G, -0.0, dtype=cx.gt)
        V = B[cx.G:cx.G + cx.ncell].reshape(cx.shape, order='F')
        M = np.zeros(B.shape, dtype=bool)
        M[cx.G:cx.G + cx.ncell] = True
    elif lay == 'pad':
        B = np.full((gx + 1, gy, gz + 3), -0.0, dtype=cx.gt)
        V = B[:gx, :, :gz]
        M = np.zeros(B.shape, dtype=bool)
        M[:gx, :, :gz] = True
    elif lay == 'block':
        B = np.full((gx + 2, gy + 2, gz + 2), -0.0, dtype=cx.gt)
        V = B[1:-1, 1:-1, 1:-1]
        M = np.zeros(B.shape, dtype=bool)
        M[1:-1, 1:-1, 1:-1] = True
    else:
        raise AssertionError(lay)
    V[...] = cx.base.astype(cx.gt)
    assert V.shape == cx.shape and not V.flags.c_contiguous or cx.ncell == 1 or (lay == 'F' and V.flags.f_contiguous)
    return B, V, M


def run_layout(cx):
    """every particle of the alphabet deposited alone, twice, into a non C-contiguous supplied grid"""
    c = cx.c
    lay = c['lay']
    pos = cx.R.sweep_positions(cx.shape, cx.box, cx.offset, cx.ft, c['sweep'], cx.wrap, 1)
    n = len(pos)
    w = cx.weights(n)
    rf = cx.make_ref(pos, w)
    # the same deposits into fresh contiguous grids (and through the whole single-particle oracle)
    C, _, _ = cx.check_singles(pos, w, 'layout-contiguous-twin', ref=rf)
    if C is None:
        return
    out1 = np.empty((n,) + cx.shape)
    out2 = np.empty((n,) + cx.shape)
    P = pos.copy()
    P2 = pos.copy()
    eps_g = float(np.finfo(cx.gt).eps)
    for i in range(n):
        B, V, M = layout_grid(cx, lay)
        assert (lay == 'F' and V.flags.f_contiguous and not V.flags.c_contiguous) or (lay != 'F' and not V.flags.c_contiguous) or cx.ncell <= 2
        wi = None if w is None else w[i:i + 1]
        r = cx.call(P[i:i + 1], V, wi)
        if cx.e == 'tp' and not (r is V or (isinstance(r, np.ndarray) and np.shares_memory(r, V))):
            cx.prob(f'layout-{lay}:return-not-shared', f'tsc_parallel returned an array that does not share memory with the supplied {lay} grid '
                                                       f'(particle {pos[i].tolist()})')
        out1[i] = V.astype(np.float64) - cx.base
        cx.call(P2[i:i + 1], V, wi)
        out2[i] = V.astype(np.float64) - cx.base
        outside = B[~M]
        if not (np.signbit(outside) & (outside == 0)).all():
            cx.prob(f'layout-{lay}:surroundings', f'elements of the larger buffer outside the supplied {lay} view were written '
                                                  f'(particle {pos[i].tolist()}): {outside[~(np.signbit(outside) & (outside == 0))][:4].tolist()}')
    cx.extra['layout'] = cx.extra.get('layout', 0) + n
    ref, tol, hi = rf.cells()
    t1 = tol + (tol > 0) * cx.acc_tol(hi)
    bad = ~(np.abs(out1 - ref) <= t1)
    if bad.any():
        i = int(np.nonzero(bad.reshape(n, -1).any(axis=1))[0][0])
        cx.prob(f'layout-{lay}:kernel', f"the caller's {lay} grid did not gain the deposit: " + cx.fmt(pos[i], None if w is None else w[i], out1[i], ref[i], t1[i]))
    t2 = 2 * tol + (tol > 0) * (2 * cx.acc_tol(2 * hi) + 4 * eps_g * hi)
    bad = ~(np.abs(out2 - 2 * ref) <= t2)
    if bad.any():
        i = int(np.nonzero(bad.reshape(n, -1).any(axis=1))[0][0])
        cx.prob(f'layout-{lay}:accumulate', f"a second call did not accumulate into the caller's {lay} grid: " + cx.fmt(pos[i], None if w is None else w[i], out2[i], 2 * ref[i], t2[i]))
    t3 = (tol > 0) * (8 * eps_g * hi + cx.acc_tol(hi) + rf.floor)
    bad = ~(np.abs(out1 - C) <= t3)
    if bad.any():
        i = int(np.nonzero(bad.reshape(n, -1).any(axis=1))[0][0])
        cx.prob(f'layout-{lay}:vs-contiguous', f'deposit into the {lay} grid differs from the deposit into a fresh C-contiguous grid: '
                + cx.fmt(pos[i], None if w is None else w[i], out1[i], C[i], t3[i]))
    cx.extra['cells'] += 3 * int(ref.size)
    near = rf.nearest()[rf.W != 0]
    for t in set(map(tuple, near.tolist())):
        cx.nt.add(cx.cfgkey + '|%d,%d,%d' % t)


PAIRW = [None, (1.0, 2.5), (2.5, 0.0), (2.5, 1.0)]


def run_pair(cx):
    """all ordered pairs (i, j) of the mini^3 alphabet x weight pairs: G({p_i,p_j}) == G(p_i) + G(p_j)"""
    c = cx.c
    Q = cx.R.sweep_positions(cx.shape, cx.box, cx.offset, cx.ft, c['sweep'], cx.wrap, 1)
    if c['nth'] > 1 or len(Q) > 100:
        Q = Q[::3]      # multi-threaded calls are expensive on a shared machine; negative offsets have a larger mini alphabet
    m = len(Q)
    eps_g = float(np.finfo(cx.gt).eps)
    floor = 64 * float(np.finfo(cx.gt).tiny)
    for wp in PAIRW:
        if wp is None:
            wa = wb = None
        else:
            wa = np.full(m, wp[0], dtype=cx.ft)
            wb = np.full(m, wp[1], dtype=cx.ft)
        # singles are always deposited serially and unpartitioned
        c0 = dict(c, nth=1, npart=None, sort=False)
        cs = Ctx(c0)
        GA, rfA, _ = cs.check_singles(Q, wa, 'pair-single')
        GB, rfB, _ = (GA, rfA, None) if wp is None else cs.check_singles(Q, wb, 'pair-single')
        for k, v in cs.problems.items():
            cx.problems.setdefault(k, v)
        for k, v in cs.extra.items():
            cx.extra[k] = cx.extra.get(k, 0) + v
        cx.nt |= cs.nt
        if GA is None or GB is None:
            return
        refA, tolA, hiA = rfA.cells()
        refB, tolB, hiB = rfB.cells()
        for i in range(m):
            P = np.empty((m, 2, 3), dtype=cx.ft)
            P[:, 0] = Q[i]
            P[:, 1] = Q
            P0 = P.copy()
            buf = cx.new_buf(m)
            wpair = None if wp is None else np.array(wp, dtype=cx.ft)
            try:
                for j in range(m):
                    cx.call(P[j], cx.grid(buf, j), None if wpair is None else wpair.copy())
            except (IndexError, SystemError) as ex:
                cx.prob('oob-boundscheck', f'pair: {type(ex).__name__}: {ex} for particles {P0[j].tolist()}')
                return
            cx.check_guard(buf, P0.reshape(m, 6), 'pair')
            if not np.array_equal(P, P0):
                cx.prob('input-modified', 'pair: in-domain positions were changed')
            G12 = buf[:, cx.G:cx.G + cx.ncell].reshape((m,) + cx.shape).astype(np.float64) - cx.base
            S = GA[i][None] + GB
            mag = hiA[i][None] + hiB
            tol = 32 * eps_g * mag + floor * (mag > 0)
            bad = ~(np.abs(G12 - S) <= tol)
            cx.extra['pairs'] = cx.extra.get('pairs', 0) + m
            if bad.any():
                j = int(np.nonzero(bad.reshape(m, -1).any(axis=1))[0][0])
                cx.prob('additivity', f'G({{p1,p2}}) != G(p1)+G(p2): p1={Q[i].tolist()} p2={Q[j].tolist()} weights={wp}: '
                        + cx.fmt(Q[j], None, G12[j], S[j], tol[j]))
            # and against the kernel itself
            tol2 = tolA[i][None] + tolB + 4 * eps_g * mag
            bad = ~(np.abs(G12 - (refA[i][None] + refB)) <= tol2)
            if bad.any():
                j = int(np.nonzero(bad.reshape(m, -1).any(axis=1))[0][0])
                cx.prob('pair-kernel', f'pair deposit differs from the kernel sum: p1={Q[i].tolist()} p2={Q[j].tolist()} weights={wp}: '
                        + cx.fmt(Q[j], None, G12[j], (refA[i][None] + refB)[j], tol2[j]))
            for j in range(0, m, 7):
                if wp is None or (wp[0] and wp[1]):
                    cx.nt.add(cx.cfgkey + f'|pair{i},{j}')


def run_multi(cx):
    """the whole red^3 alphabet in one call, weights in a 5-cycle, under one thread/partition/sort/coord setting"""
    c = cx.c
    pos = cx.R.sweep_positions(cx.shape, cx.box, cx.offset, cx.ft, c['sweep'], cx.wrap, 1)
    # de-correlate the storage order from the coordinates (deterministic permutation)
    n = len(pos)
    perm = (np.arange(n) * 7919 + 13) % n if np.gcd(7919, n) == 1 else np.arange(n)[::-1]
    pos = pos[perm]
    w = cx.weights(n)
    rf = cx.make_ref(pos, w)
    P = pos.copy()
    wc = None if w is None else w.copy()
    eps_g = float(np.finfo(cx.gt).eps)
    if cx.e in ('gft', 'gfc'):
        ps = _ps()
        cx.extra['calls'] += 1
        f = ps.get_field(P, cx.box, cx.shape[0], 'TSC' if cx.e == 'gft' else 'CIC', w=wc, d=cx.offset, nthread=c['nth'], dtype=cx.gt)
        wtot = None if w is None else float(w.astype(np.float64).sum())
        out = cx.invert_field(f, n, wtot)
        if w is None:
            s = float((f.astype(np.float64)).sum())
            if not abs(s) <= 64 * eps_g * n * 1.0 + 64 * eps_g * cx.ncell:
                cx.prob('mean', f'unweighted overdensity field does not average to zero: sum = {s!r}')
        extra_tol = 8 * eps_g * (n / cx.ncell + 1)
    else:
        buf = cx.new_buf(1)
        try:
            cx.call(P, cx.grid(buf, 0), wc)
        except (IndexError, SystemError) as ex:
            cx.prob('oob-boundscheck', f'multi: {type(ex).__name__}: {ex}')
            return
        cx.check_guard(buf, pos[:1], 'multi')
        if c['sort'] or (c['npart'] or 0) > 1 or c['nth'] > 1:
            pass
        cx.check_pos(pos, P)
        out = buf[0, cx.G:cx.G + cx.ncell].reshape(cx.shape).astype(np.float64) - cx.base
        extra_tol = 0.0
    if w is not None and not np.array_equal(wc, w):
        cx.prob('weights-modified', 'the caller\'s weights array was changed')
    ref, tol, hi = rf.total()
    tol = tol + extra_tol * (1 + hi) + cx.acc_tol(hi)
    bad = ~(np.abs(out - ref) <= tol)
    cx.extra['multi'] = cx.extra.get('multi', 0) + 1
    cx.extra['multi_n'] = cx.extra.get('multi_n', 0) + n
    cx.extra['cells'] += cx.ncell
    if bad.any():
        ix = tuple(int(x) for x in np.argwhere(bad)[0])
        cx.prob('multi', f'{n}-particle deposit differs from the kernel sum in {int(bad.sum())} cells, e.g. cell {ix}: got {out[ix]!r} expected {ref[ix]!r} (tol {tol[ix]:.3g})')
    wt = float(rf.W.sum())
    if not abs(float(out.astype(np.longdouble).sum()) - wt) <= 64 * max(eps_g, float(np.finfo(cx.ft).eps)) * float(np.abs(rf.W).sum()) + cx.ncell * eps_g * 4:
        cx.prob('multi-total', f'grid total {float(out.sum())!r} != total weight {wt!r}')
    cx.nt.add(cx.cfgkey + '|multi')
    return dict(config=cx.describe(), particles=n, total_weight=wt, grid_total=float(out.sum()))


def run(case):
    if 'sub' in case:
        out = dict(problems=[], evals=0, nt=set(), extra={}, max={}, sample=None)
        seen = set()
        for sub in case['sub']:
            try:
                r = run_one(sub)
            except core.Stale as ex:
                out['extra']['sub_stale'] = out['extra'].get('sub_stale', 0) + 1
                stale = str(ex)
                continue
            for p in r['problems']:
                if p['sig'] not in seen:
                    seen.add(p['sig'])
                    out['problems'].append(p)
            out['evals'] += r['evals']
            out['nt'].update(r['nt'])
            for k, v in r['extra'].items():
                out['extra'][k] = out['extra'].get(k, 0) + v
            for k, v in r['max'].items():
                out['max'][k] = max(out['max'].get(k, v), v)
            out['sample'] = out['sample'] or r['sample']
        out['nt'] = sorted(out['nt'])
        if not out['evals'] and out['extra'].get('sub_stale'):
            raise core.Stale(stale)
        return out
    return run_one(case)


def run_one(case):
    c = dict(case)
    cx = Ctx(c)
    mode = c['mode']
    sample = None
    try:
        if mode == 'single':
            sample = run_single(cx)
        elif mode == 'roll':
            run_roll(cx)
        elif mode == 'pair':
            run_pair(cx)
        elif mode == 'multi':
            sample = run_multi(cx)
        elif mode == 'lay':
            run_layout(cx)
        else:
            raise AssertionError(mode)
    except Rejected:
        cx.extra['refused'] = 1
        cx.nt.clear()
    except (IndexError, SystemError) as ex:
        if not cx.bchk:
            raise
        # NUMBA_BOUNDSCHECK=1: an out-of-range index inside a compiled kernel (SystemError when raised in a parallel region)
        cx.prob('oob-boundscheck', f'{mode}: {type(ex).__name__}: {ex}')
    keep = (mode == 'single' and c['sweep'].startswith('axis0') and c['shape'] in ([3, 4, 5], [8, 8, 8]) and c['offk'] == 1) or \
           (mode == 'multi' and c['nth'] == 2 and c['npart'] == 2 and c['shape'] == [8, 2, 3])
    calls = cx.extra.pop('calls')
    r = dict(problems=list(cx.problems.values()), evals=calls, nt=sorted(cx.nt), extra=cx.extra,
             max=dict(worst_permille_of_tol=int(cx.worst * 1000)), sample=sample if keep and not cx.bchk else None)
    if cx.bchk:
        r['extra'] = dict(cx.extra, bchk_calls=calls)
    return r


def crash_sig(case):
    return str(case.get('key') or f"{case.get('e')}:{case.get('mode')}")

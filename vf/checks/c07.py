"""C07 - parallel TSC equals serial TSC under every thread schedule.

Three layers, all exhaustive within their bounds:
 (a) configuration space: the REAL tsc_parallel front end (its own source, virtual numba thread API, _tsc_parallel
     intercepted) is called for every (n1d, nthread, npartition incl. None, coord): accept / reject / default.
 (b) E-POR: for every distinct accepted (n1d, effective npartition, coord) x offset x dtype the real _tsc_parallel +
     _tsc_scatter twins run on a probe set that puts a particle on every integer, half-integer and stripe-boundary
     abscissa (+-1 ulp); Bernstein's conditions between every pair of concurrently processed stripes are checked on
     the access log (=> all interleavings are one Mazurkiewicz trace), and the grid is compared with the serial deposit.
 (c) E-SCHED: stateless exploration of all thread schedules up to a preemption bound for small configurations
     (and for any configuration where (b) found a conflict), comparing every terminal grid with the serial deposit.
 (d) conformance: compiled tsc_parallel with real threads vs one thread (supporting evidence, decides nothing alone).
"""
import itertools
import numpy as np

PID = 'C07'
LEVEL = 'model_checking'
NTHREADS = [1, 2, 3, 4, 6, 8, 12, 16, 24, 32, 64, 128]
RULE = ('configs: n1d 1..N x nthread {1,2,3,4,6,8,12,16,24,32,64,128} x npartition {None,1..n1d} x coord {0,1,2}; '
        'independence (Bernstein) check of every same-phase stripe pair for each accepted (n1d, npartition, coord) x offset '
        '{0, 1/2 cell} x {float32,float64} on a boundary probe set; schedule exploration with preemption bound for n1d<=16; '
        'states = scheduling points visited, transitions = thread steps, non-trivial = distinct accepted multi-stripe '
        'configurations whose stripe pairs were checked')
ASSUMPTIONS = ['sequentially consistent, element-atomic loads/stores of grid cells', 'one virtual thread per prange iteration (superset of every chunked assignment)',
               'numba thread API replaced by a virtual one inside twins only']
CHUNK = 1
WORKERS = 16
BOX = 7.25


def cases(tier, seed):
    yield dict(kind='seeded')
    N = 48 if tier == 'quick' else 128
    for n1d in range(1, N + 1):
        for coord in (0, 1, 2):
            yield dict(kind='config', n1d=n1d, coord=coord)
    M = 16 if tier == 'quick' else 24
    for n1d in range(2, M + 1):
        yield dict(kind='sched', n1d=n1d, bound=1 if tier == 'quick' else 2)
    yield dict(kind='sched-unreduced', n1d=13, np=4, bound=1 if tier == 'quick' else 2)
    for n1d in range(2, 33 if tier == 'quick' else 65):
        yield dict(kind='conformance', n1d=n1d)


_T = None


def worker_init():
    pass


def env():
    global _T
    if _T is None:
        from vf import twin
        from abacusnbody.analysis import tsc
        rt = twin.Runtime()
        tw = twin.Twins(rt)
        front = tw.twin(tsc.tsc_parallel)
        kname = stripe_kernel_name(tsc)
        kfn = getattr(tsc, kname)
        import inspect as _insp
        # the direct kernel drivers (por_run, schedule exploration) assume one six-parameter call is the whole deposit
        direct_ok = len(_insp.signature(getattr(kfn, 'py_func', kfn)).parameters) == 6
        _T = dict(rt=rt, tw=tw, front=front, par=tw.twin(getattr(tsc, kname)), kname=kname, tsc=tsc, twin=twin, direct_ok=direct_ok)
    return _T


def stripe_kernel_name(tsc):
    """The stripe kernel is found structurally, not by its private name: it is the module-level parallel numba kernel that
    tsc_parallel calls with the density grid (its own 2nd parameter) among the arguments."""
    import ast, inspect, textwrap
    fn = tsc.tsc_parallel
    fn = getattr(fn, 'py_func', fn)
    grid = list(inspect.signature(fn).parameters)[1]
    tree = ast.parse(textwrap.dedent(inspect.getsource(fn)))
    cands = []
    for node in ast.walk(tree):
        if isinstance(node, ast.Call) and isinstance(node.func, ast.Name):
            tgt = getattr(tsc, node.func.id, None)
            if tgt is None or not hasattr(tgt, 'py_func') or not getattr(tgt, 'targetoptions', {}).get('parallel'):
                continue
            names = [a.id for a in list(node.args) + [k.value for k in node.keywords] if isinstance(a, ast.Name)]
            if grid in names:
                cands.append((len(node.args) + len(node.keywords), node.func.id))
    if cands:
        return max(cands)[1]      # the call that is handed the most (particles, offsets, grid, box, weights, offset), wherever it is nested
    return '_tsc_parallel'      # (AttributeError in the driver -> stale, if that is gone too)


_DENS = {}


def front_decision(n1d, coord, nthread, npart, orient=0, wrap=False):
    """Run the real tsc_parallel front end; returns ('accept', effective npartition) | ('reject', msg) | ('error', msg)"""
    import warnings
    T = env()
    rt = T['rt']
    rt.reset(max_threads=4096)
    cap = {}

    def capture(*a, **k):
        # the stripe offsets are the one-dimensional integer array among the arguments
        starts = [v for v in list(a) + list(k.values()) if isinstance(v, np.ndarray) and v.ndim == 1 and v.dtype.kind in 'iu']
        cap['np'] = len(starts[0]) - 1 if len(starts) == 1 else None
        cap['threads'] = rt.nthreads      # the (virtual) numba thread count in effect when the stripes are processed

    g = T['front'].__globals__
    g[T['kname']] = capture
    # partition_parallel stays the real kernel (interpreted twin, zero particles): whatever it does to the thread count is seen
    # the partition axis has n1d cells; one of the other two axes is much longer (so using the wrong axis length
    # for the stripe-width rule would accept unsafe stripe counts), the third much shorter
    shape = [1, 1, 1]
    shape[(coord + 1 + orient) % 3] = 4 * n1d + 3
    shape[coord] = n1d
    key = tuple(shape)
    dens = _DENS.get(key)
    if dens is None:
        _DENS.clear()
        dens = _DENS[key] = np.zeros(shape, dtype=np.float32)
    # one particle (not zero): an early exit for empty input must not hide the decision
    pos = np.full((1, 3), 0.37 * BOX, dtype=np.float32)
    try:
        with warnings.catch_warnings():
            warnings.simplefilter('ignore')
            T['front'](pos, dens, BOX, nthread=nthread, npartition=npart, coord=coord, wrap=wrap)
    except ValueError as e:
        return 'reject', str(e)
    except Exception as e:
        from vf import core
        st = core.stale_reason(e)
        if st or type(e).__name__ == 'TwinError':
            raise core.Stale(st or f'TwinError: {e}')
        return 'error', f'{type(e).__name__}: {e}'
    return 'accept', (cap.get('np'), cap.get('threads'))


def probes(n1d, npart, coord, dtype, offset_cells):
    """particles on every integer / half-integer / stripe-boundary abscissa +- ulp along coord (cell units)"""
    h = BOX / n1d
    a = []
    for r in range(n1d):
        a += [r, r + 0.25, r + 0.5, r + 0.75]
    for s in range(npart + 1):
        a += [s * n1d / npart]
    a = np.array(sorted(set(a)), dtype=np.float64)
    x = (a * h)
    x = np.concatenate([x, np.nextafter(x, -1), np.nextafter(x, 1e9)])
    x = x.astype(dtype)
    x = np.concatenate([x, np.nextafter(x, dtype(-1)), np.nextafter(x, dtype(1e9))])
    x = x[(x >= 0) & (x < dtype(BOX))]
    x = np.unique(x)
    pos = np.empty((len(x), 3), dtype=dtype)
    pos[:] = dtype(1.3 * BOX / 3)
    pos[:, coord] = x
    return pos


def por_run(n1d, npart, coord, dtype, offset_cells, empty=()):
    """E-POR on the real twins. Returns (conflicts, pairs_checked, maxdiff vs serial, nparticles)"""
    T = env()
    tsc, rt = T['tsc'], T['rt']
    pos = probes(n1d, npart, coord, dtype, offset_cells)
    w = (1 + (np.arange(len(pos)) % 7) / 8).astype(dtype)
    if empty:
        # clustered input: no particle at all in the listed stripes (a stripe that exists but is empty must stay a stripe)
        key = np.minimum((pos[:, coord].astype(np.float64) * npart / BOX).astype(np.int64), npart - 1)
        keep = ~np.isin(key, list(empty))
        pos, w = pos[keep], w[keep]
    ppart, starts, wpart = tsc.partition_parallel(pos, npart, BOX, weights=w, coord=coord, nthread=2)
    shape = [3, 3, 3]
    shape[coord] = n1d
    offset = offset_cells * BOX / n1d
    dens = np.zeros(shape, dtype=dtype)
    rt.reset(keep_footprints=True)
    T['par'](ppart, starts, rt.track(dens, 'density'), BOX, wpart, offset)
    ref = np.zeros(shape, dtype=np.float64)
    tsc._tsc_scatter(pos.astype(np.float64), ref, BOX, weights=w.astype(np.float64), offset=offset)
    diff = float(np.abs(dens - ref).max())
    scale = float(np.abs(ref).max()) or 1.0
    conflicts = []
    pairs = 0
    for reg in rt.regions:
        pairs += reg.pairs_checked
        for c in reg.conflicts:
            conflicts.append((reg.index,) + c)
    fps = [reg.footprints for reg in rt.regions]
    return conflicts, pairs, diff / scale, len(pos), fps, (ppart, starts, wpart, shape, offset)


def front_por(n1d, who, coord, dtype, wrap, sort=False):
    """E-POR through the WHOLE interpreted front end (wrap, partition, weights, stripe kernel - all the real sources as twins):
    the data flow between the steps is part of what keeps concurrently processed stripes apart.  Particles include
    periodic images outside [0, Box) when wrap=True, and carry distinct weights.  Reference: the serial scatter kernel on the
    same particles (periodically wrapped in float64)."""
    T = env()
    tsc, rt = T['tsc'], T['rt']
    nthread, nparg = who
    pos = probes(n1d, 4, coord, dtype, 0.0)
    pos = pos[:: max(1, len(pos) // 90)]
    # input order unrelated to the stripe order (the probe abscissae come sorted)
    n = len(pos)
    k = next(q for q in (37, 41, 43, 47, 53, 59) if n % q)
    pos = pos[(np.arange(n) * k) % n] if n > 1 else pos
    w = (1 + (np.arange(len(pos)) % 11) / 16).astype(dtype)
    if wrap:
        pos = pos.copy()
        pos[1::3, coord] += dtype(BOX)
        pos[2::3, coord] -= dtype(BOX)
        pos[::5, (coord + 1) % 3] += dtype(BOX)
    shape = [3, 3, 3]
    shape[coord] = n1d
    ref = np.zeros(shape, dtype=np.float64)
    p64 = pos.astype(np.float64)
    p64 -= BOX * np.floor(p64 / BOX)          # periodic images (the subtraction is exact for these inputs)
    p64[p64 >= BOX] -= BOX
    tsc._tsc_scatter(p64, ref, BOX, weights=w.astype(np.float64), offset=0.0)
    dens = np.zeros(shape, dtype=dtype)
    rt.reset(keep_footprints=False, max_threads=4096)
    T['front'].__globals__[T['kname']] = T['par']
    T['front'](pos.copy(), rt.track(dens, 'density'), BOX, weights=w.copy(), nthread=nthread, npartition=nparg, coord=coord, wrap=wrap, sort=sort)
    conflicts = [(reg.index,) + c for reg in rt.regions for c in reg.conflicts]
    pairs = sum(reg.pairs_checked for reg in rt.regions)
    scale = float(np.abs(ref).max()) or 1.0
    return conflicts, pairs, float(np.abs(dens - ref).max()) / scale, len(pos)


def run_config(case):
    n1d, coord = case['n1d'], case['coord']
    probs = []
    nt = []
    ncalls = 0
    accepted = {}
    default_np = {}
    unknown = differs = thread_differs = front_runs = direct_skipped = 0
    for nthread in NTHREADS:
        for npart in [None] + list(range(1, n1d + 1)):
            verdict, info = front_decision(n1d, coord, nthread, npart)
            ncalls += 1
            v3, i3 = front_decision(n1d, coord, nthread, npart, wrap=True)
            ncalls += 1
            # the accept/reject decision may legitimately depend on the wrap option; both variants are examined
            if v3 == 'error':
                probs.append(dict(sig='front:unexpected-error', msg=f'n1d={n1d} nthread={nthread} npartition={npart} wrap=True: {i3}'))
            elif v3 == 'accept' and i3[0] and max(nthread, i3[1] or 1) > 1 and i3[0] > 1:
                accepted.setdefault(i3[0], []).append((nthread, npart))
            if nthread in (2, 16):
                v2, i2 = front_decision(n1d, coord, nthread, npart, orient=1)
                ncalls += 1
                if v2 == 'accept' and i2[0] and max(nthread, i2[1] or 1) > 1 and i2[0] > 1:
                    accepted.setdefault(i2[0], []).append((nthread, npart))     # examined like every accepted configuration
                if False:
                    probs.append(dict(sig='front:decision-depends-on-other-axes', msg=f'n1d={n1d} coord={coord} nthread={nthread} npartition={npart}: {verdict} {info} vs {v2} {i2} when the long and short other axes are swapped'))
            if verdict == 'error':
                probs.append(dict(sig='front:unexpected-error', msg=f'n1d={n1d} nthread={nthread} npartition={npart}: {info}'))
            elif verdict == 'accept':
                info, eff = info
                if info is None:
                    unknown += 1        # accepted, but the deposit did not go through _tsc_parallel (e.g. a serial path): nothing concurrent to examine
                    continue
                # the stripe count actually used and the thread count in effect (not the requested ones) are what is examined
                if npart is not None and info != npart:
                    differs += 1
                if eff is not None and eff != nthread:
                    thread_differs += 1
                if max(nthread, eff or 1) > 1 and info and info > 1:
                    accepted.setdefault(info, []).append((nthread, npart))
                if npart is None:
                    default_np[nthread] = info
    states = trans = 0
    pairs_total = 0
    direct = env()['direct_ok']
    for npart in sorted(accepted):
        for dtype in (np.float32, np.float64):
            for off in (0.0, 0.5):
                if not direct:
                    direct_skipped += 1      # only the end-to-end run below decides
                    continue
                conflicts, pairs, rel, nparts, fps, _ = por_run(n1d, npart, coord, dtype, off)
                pairs_total += pairs
                states += nparts
                trans += nparts * 27
                tol = 1e-5 if dtype is np.float32 else 1e-13
                who = accepted[npart][0]
                if conflicts:
                    c = conflicts[0]
                    probs.append(dict(sig='por:stripes-share-cells' + (':default' if any(p is None for _, p in accepted[npart]) else ':user'),
                                      msg=f'n1d={n1d} coord={coord} npartition={npart} (accepted e.g. for nthread={who[0]}, npartition arg={who[1]}) '
                                          f'dtype={dtype.__name__} offset={off} cell: stripes {c[4]} of phase {c[0]} both access {c[1]} element {c[3]} ({c[2]}); '
                                          f'{len(conflicts)} conflicting elements reported'))
                if npart >= 4 and off == 0.0 and dtype is np.float32:
                    for empty in ((1,), (npart - 2,), (1, 2), tuple(range(1, npart, 2))):
                        c2, p2, rel2, _, _, _ = por_run(n1d, npart, coord, dtype, off, empty=empty)
                        pairs_total += p2
                        if c2:
                            c = c2[0]
                            probs.append(dict(sig='por:stripes-share-cells:empty-stripes', msg=f'n1d={n1d} coord={coord} npartition={npart} with stripes {empty} empty: stripes {c[4]} of phase {c[0]} both access {c[1]} element {c[3]} ({c[2]})'))
                        if not rel2 <= tol:
                            probs.append(dict(sig='por:differs-from-serial:empty-stripes', msg=f'n1d={n1d} coord={coord} npartition={npart} empty={empty}: max rel diff {rel2}'))
                if not rel <= tol:
                    probs.append(dict(sig='por:differs-from-serial', msg=f'n1d={n1d} coord={coord} npartition={npart} dtype={dtype.__name__} offset={off}: max rel diff {rel}'))
        # the same configuration end to end through the front end's own data flow
        for who in dict.fromkeys([accepted[npart][0], accepted[npart][-1]]):
            for wrap, sort in ((True, False), (False, True)):
                try:
                    c3, p3, rel3, n3 = front_por(n1d, who, coord, np.float32, wrap, sort)
                except ValueError:
                    continue        # (refused for this input after all)
                pairs_total += p3
                states += n3
                trans += n3 * 27
                front_runs += 1
                if c3:
                    c = c3[0]
                    probs.append(dict(sig='por:stripes-share-cells:front-end', msg=f'n1d={n1d} coord={coord} nthread={who[0]} npartition arg={who[1]} (runs {npart} stripes) wrap={wrap} sort={sort}, '
                                          f'particles incl. periodic images outside the box: bodies {c[4]} of parallel region {c[0]} both access {c[1]} element {c[3]} ({c[2]})'))
                if not rel3 <= 1e-5:
                    probs.append(dict(sig='por:differs-from-serial:front-end', msg=f'n1d={n1d} coord={coord} nthread={who[0]} npartition arg={who[1]} wrap={wrap} sort={sort}: weighted grid differs from the single-threaded deposit, max rel diff {rel3}'))
        nt.append((n1d, npart, coord))
    return dict(problems=probs, evals=ncalls, nt=nt, states=max(states, 1), transitions=max(trans, 1), traces=0,
                extra=dict(front_end_calls=ncalls, stripe_pairs_checked=pairs_total, accepted_multistripe_configs=len(accepted),
                           accepted_without_stripe_kernel=unknown, front_end_por_runs=front_runs, direct_kernel_runs_skipped_driver_stale=direct_skipped, ran_with_other_stripe_count=differs, ran_with_other_thread_count=thread_differs),
                sample=dict(n1d=n1d, coord=coord, defaults=default_np, accepted_npartitions=sorted(accepted)) if n1d in (8, 24) and coord == 0 else None)


def sched_explore(ppart, starts, wpart, shape, offset, bound, contended, dtype, max_exec=20000):
    T = env()
    twin, rt = T['twin'], T['rt']
    ref = np.zeros(shape, dtype=np.float64)
    T['tsc']._tsc_scatter(ppart.astype(np.float64), ref, BOX, weights=None if wpart is None else wpart.astype(np.float64), offset=offset)
    tol = (2e-6 if dtype is np.float32 else 1e-13) * (float(np.abs(ref).max()) or 1.0)

    def run_one(prefix):
        sch = twin.Scheduler(prefix)
        rt.reset(mode='sched', scheduler=sch, contended=contended)
        dens = np.zeros(shape, dtype=dtype)
        T['par'](ppart, starts, rt.track(dens, 'density'), BOX, wpart, offset)
        return sch, dens
    nexec = npoints = 0
    bad = None
    outcomes = set()
    capped = False
    # iterate the bound 0, 1, .. so that the first counterexample has the fewest preemptions; stop at the first one
    for b in range(bound + 1):
        for item in twin.explore(run_one, b, max_exec=max_exec):
            if item[0] == 'CAPPED':
                capped = True
                break
            choices, pre, dens = item
            if pre < b:
                continue      # already seen under a smaller bound
            nexec += 1
            npoints += len(choices)
            d = float(np.abs(dens - ref).max())
            outcomes.add(round(d / tol) if d > tol else 0)
            if d > tol:
                bad = (choices, pre, d, float(dens.sum()), float(ref.sum()))
                break
        if bad or capped:
            break
    return nexec, npoints, bad, len(outcomes), capped


def contended_from(fps):
    """{region: {root: set(ids)}} of elements touched by >= 2 tasks with at least one write"""
    out = {}
    for ri, fp in enumerate(fps):
        if not fp:
            continue
        cnt = {}
        for t, roots in fp.items():
            for rid, (ws, rs) in roots.items():
                for e in ws | rs:
                    c = cnt.setdefault((rid, e), [0, 0])
                    c[0] += 1
                    c[1] += 1 if e in ws else 0
        for (rid, e), (n, nw) in cnt.items():
            if n >= 2 and nw >= 1:
                out.setdefault(ri, {}).setdefault(rid, set()).add(e)
    return out


def run_sched(case):
    n1d, bound = case['n1d'], case['bound']
    probs = []
    nt = []
    states = trans = traces = 0
    extra = dict(schedules_explored=0, sched_configs=0)
    accepted = set()
    for nthread in NTHREADS[1:]:
        for npart in [None] + list(range(1, n1d + 1)):
            v, info = front_decision(n1d, 0, nthread, npart)
            if v == 'accept' and info and info[0] and info[0] > 1:
                accepted.add(info[0])
    for npart in sorted(accepted):
        for dtype in (np.float32,):
            # one or two particles per stripe, on the abscissae closest to the neighbouring same-phase stripes
            w = n1d / npart
            xs = []
            for s in range(npart):
                lo, hi = s * w, (s + 1) * w
                xs += [lo * BOX / n1d, np.nextafter(np.float32(hi * BOX / n1d), np.float32(0))]
            x = np.array(xs, dtype=dtype)
            x = x[(x >= 0) & (x < dtype(BOX))]
            pos = np.empty((len(x), 3), dtype=dtype)
            pos[:] = dtype(1.3 * BOX / 3)
            pos[:, 0] = x
            wts = (1 + np.arange(len(x)) / 4).astype(dtype)
            T = env()
            ppart, starts, wpart = T['tsc'].partition_parallel(pos, npart, BOX, weights=wts, coord=0, nthread=1)
            shape = [n1d, 3, 3]
            conflicts, pairs, rel, _, fps, _ = por_run_on(ppart, starts, wpart, shape, 0.0, dtype)
            cont = contended_from(fps)
            nexec, npoints, bad, nout, capped = sched_explore(ppart, starts, wpart, shape, 0.0, bound, cont, dtype, max_exec=4000)
            states += npoints + 1
            trans += npoints + nexec
            traces += nexec
            extra['schedules_explored'] += nexec
            extra['sched_configs'] += 1
            if capped:
                extra['sched_capped'] = extra.get('sched_capped', 0) + 1
            nt.append((n1d, npart, 'sched', bound))
            if bad:
                probs.append(dict(sig='sched:lost-deposit', msg=f'n1d={n1d} npartition={npart} dtype={dtype.__name__}: schedule {bad[0]} ({bad[1]} preemptions) gives a grid differing from the serial deposit by {bad[2]:.3g} (grid total {bad[3]} vs {bad[4]}); {nexec} schedules explored, bound {bound}'))
            elif conflicts:
                probs.append(dict(sig='sched:conflict-without-loss', msg=f'n1d={n1d} npartition={npart}: stripes share cells ({conflicts[0]}) but no explored schedule (bound {bound}) changed the grid'))
    return dict(problems=probs, evals=traces, nt=nt, states=max(states, 1), transitions=max(trans, 1), traces=traces, extra=extra,
                sample=dict(n1d=n1d, accepted_npartitions=sorted(accepted), bound=bound) if n1d == 12 else None)


def por_run_on(ppart, starts, wpart, shape, offset, dtype):
    T = env()
    rt = T['rt']
    dens = np.zeros(shape, dtype=dtype)
    rt.reset(keep_footprints=True)
    T['par'](ppart, starts, rt.track(dens, 'density'), BOX, wpart, offset)
    conflicts = [(reg.index,) + c for reg in rt.regions for c in reg.conflicts]
    return conflicts, sum(r.pairs_checked for r in rt.regions), 0.0, len(ppart), [r.footprints for r in rt.regions], None


def run_unreduced(case):
    """every grid access of the smallest concurrent safe configuration is a scheduling point (validates the static reduction)"""
    n1d, npart, bound = case['n1d'], case['np'], case['bound']
    T = env()
    v, info = front_decision(n1d, 0, 16, npart)
    if v != 'accept':
        return dict(problems=[], evals=1, nt=[], states=1, transitions=1, traces=0, extra=dict(unreduced_skipped=1))
    dtype = np.float32
    w = n1d / npart
    x = np.array([np.nextafter(np.float32(1 * w * BOX / n1d), np.float32(0)), 2 * w * BOX / n1d], dtype=dtype)
    pos = np.empty((2, 3), dtype=dtype)
    pos[:] = dtype(1.3 * BOX / 3)
    pos[:, 0] = x
    ppart, starts, wpart = T['tsc'].partition_parallel(pos, npart, BOX, weights=None, coord=0, nthread=1)
    nexec, npoints, bad, nout, capped = sched_explore(ppart, starts, None, [n1d, 3, 3], 0.0, bound, None, dtype, max_exec=60000)
    probs = []
    if bad:
        probs.append(dict(sig='sched:lost-deposit:unreduced', msg=f'n1d={n1d} np={npart}: schedule {bad[0]} differs from serial by {bad[2]}'))
    return dict(problems=probs, evals=nexec, nt=[(n1d, npart, 'unreduced', bound)], states=npoints + 1, transitions=npoints + nexec, traces=nexec,
                extra=dict(unreduced_schedules=nexec, unreduced_capped=int(capped)))


def run_conformance(case):
    """compiled kernel, real threads, every accepted default/user configuration: parallel == one thread"""
    import warnings
    from abacusnbody.analysis import tsc
    n1d = case['n1d']
    probs = []
    n = 0
    rng_x = np.linspace(0, BOX, 4 * n1d + 3, endpoint=False)
    pos0 = np.stack([rng_x, (rng_x * 1.7) % BOX, (rng_x * 2.3) % BOX], axis=1).astype(np.float32)
    pos0 = np.concatenate([pos0] * 8)
    ref = None
    with warnings.catch_warnings():
        warnings.simplefilter('ignore')
        ref = tsc.tsc_parallel(pos0.copy(), n1d, BOX, nthread=1)
        for nthread in (1, 2, 3, 5, 8, 16):
            for npart in [None] + (list(range(2, n1d // 2 + 1, 2)) if nthread > 1 else list(range(2, n1d + 1))):
                try:
                    d = tsc.tsc_parallel(pos0.copy(), n1d, BOX, nthread=nthread, npartition=npart)
                except ValueError:
                    continue
                n += 1
                rel = float(np.abs(d - ref).max() / np.abs(ref).max())
                if not rel <= 2e-5:
                    probs.append(dict(sig='conformance:real-threads-differ', msg=f'n1d={n1d} nthread={nthread} npartition={npart}: compiled parallel differs from one thread by rel {rel:.3g}'))
    return dict(problems=probs[:3], evals=n, nt=[], states=1, transitions=1, traces=n, extra=dict(compiled_real_thread_runs=n))


def run(case):
    if case['kind'] in ('seeded', 'sched', 'sched-unreduced') and not env()['direct_ok']:
        from vf import core
        raise core.Stale(f"{env()['kname']} no longer has the six-parameter form the direct kernel drivers assume (one call = the whole deposit); the end-to-end front-end runs still decide")
    return {'seeded': run_seeded, 'config': run_config, 'sched': run_sched, 'sched-unreduced': run_unreduced, 'conformance': run_conformance}[case['kind']](case)


def selfcheck():
    from vf import twin
    twin.selfcheck()


def run_seeded(case):
    """Explorer sanity on the real kernel: a deliberately unsafe partition (4 stripes on an 8-row grid, two particles whose
    clouds share row 3) handed straight to the real _tsc_parallel twin, bypassing the front end.  POR must flag it, no
    schedule with 0 preemptions may lose a deposit and some schedule with 1 preemption must.  If this fails, either the
    explorer is broken or _tsc_parallel no longer processes the stripes it is given as given (reported as a violation,
    since the explorer's own self-checks have passed at this point)."""
    T = env()
    pos = np.empty((2, 3), dtype=np.float32)
    pos[:] = 1.3 * BOX / 3
    pos[:, 0] = [np.nextafter(np.float32(2 * BOX / 8), np.float32(0)), 4 * BOX / 8]
    ppart, starts, wpart = T['tsc'].partition_parallel(pos, 4, BOX, weights=None, coord=0, nthread=1)
    conflicts, pairs, rel, _, fps, _ = por_run_on(ppart, starts, None, [8, 3, 3], 0.0, np.float32)
    probs = []
    n0 = n1 = 0
    if not conflicts:
        probs.append(dict(sig='seeded-unsafe-partition:not-flagged', msg='stripes 0 and 2 of a 4-stripe partition of an 8-row grid were given one particle each with overlapping clouds, '
                          'but the two bodies of the first parallel region did not touch a common cell: _tsc_parallel does not process the stripes as partitioned'))
    else:
        cont = contended_from(fps)
        n0, _, bad0, _, _ = sched_explore(ppart, starts, None, [8, 3, 3], 0.0, 0, cont, np.float32)
        n1, _, bad1, _, _ = sched_explore(ppart, starts, None, [8, 3, 3], 0.0, 1, cont, np.float32)
        if bad0 is not None or bad1 is None or bad1[1] != 1:
            probs.append(dict(sig='seeded-unsafe-partition:race-not-found', msg=f'bound 0 -> {bad0}, bound 1 -> {bad1}'))
    return dict(problems=probs, evals=n0 + n1 + 1, nt=[('seeded-unsafe', n0, n1)], states=max(n0 + n1, 1), transitions=max(n0 + n1, 1), traces=n0 + n1,
                extra=dict(seeded_race_schedules_bound0=n0, seeded_race_found_after=n1))

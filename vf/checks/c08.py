"""C08 - every Fourier mode is binned exactly once into the right (k, mu) / (k_perp, k_par) bin.

Bounded exhaustive enumeration on the real kernels bin_kmu, bin_kppi (compiled, all thread counts; and their
py_func bodies interpreted under virtual thread schedules) and on calc_pk_from_deltak.
Oracle: vf/c08_ref.py (full n1d^3 mesh, fftfreq wavenumbers, half-complex representative, float64, feasibility of
the near-edge assignment).
"""
import itertools
import os
import numpy as np

# the machine is shared: idle OpenMP workers must sleep, not spin (set before numba loads its threading layer;
# spawn children inherit it).  This changes scheduling only, never results.
os.environ.setdefault('OMP_WAIT_POLICY', 'passive')

PID = 'C08'
LEVEL = 'exploration'
RULE = ('full product mesh size n1d x box L x k-edge family {linear n1d bins, one bin, integer multiples of the fundamental '
        '(every shell on an edge), half-integer multiples (no shell on an edge), logarithmic} x first edge {0, 1.3 fundamental} x '
        'last edge {0.5, 1, sqrt2, sqrt3(+1 fundamental)} k_Ny (duplicate edge arrays dropped) x {mu bins | Npi x pimax} (quick: bin_kppi with L=1000 only for Npi=3); every case is '
        'run compiled for every multipole set x thread count, through calc_pk_from_deltak, and interpreted (kernel source under vf/twin.py) under 4 virtual '
        'thread schedules; every run is compared with the full-mesh reference (exact integer counts up to near-edge feasibility, '
        'N*power, N*k_avg, (2l+1)-Legendre sums); non-trivial = distinct (function, n1d, L, edges, mu/pi binning) whose reference has '
        '>= 2 populated bins')
ASSUMPTIONS = ['|k| = 0 mode has mu = 0 (nbodykit convention, documented in the kernel)',
               'mu edges span [0, 1]; mu = 1 belongs to the last mu bin; pi edges are linspace(0, pimax, Npi+1)',
               'a mode whose squared quantity is within 2 (k^2, k_perp^2, k_par^2) or 4 (mu^2) float32 ulp of a squared edge may be '
               'counted on either side, consistently for all modes with the same integers; this includes the k = 0 (k_perp = 0) mode when the first k edge is exactly 0',
               'float32 accumulation: |sum error| <= (N+32) eps32 sum|terms| (+ Legendre evaluation error 4 l^2 eps32 per term)',
               'values of empty bins are not constrained', 'mu = |kz|/|k| also for odd multipoles',
               'mesh values: distinct positive irrational weights with exact zeros in one cell out of seven, not Hermitian-symmetrised (each stored value is its own)']
CHUNK = 6
WORKERS = 8
ISOLATE_REPRO = True

PHI = (5 ** 0.5 - 1) / 2
EPS32 = float(np.finfo(np.float32).eps)
FAMS = ('lin', 'one', 'int', 'half', 'log')
STARTS = (0, 1)
ENDS = ('h', 'n', 's2', 's3')
LABEL = {'oddfold': 'odd-n1d-negative-frequency-fold', 'nyq2': 'nyquist-plane-counted-twice',
         'kz0x2': 'kz0-plane-counted-twice', 'jbreak': 'break-drops-negative-ky'}


def BOUNDS(tier):
    q = tier == 'quick'
    return dict(n1d=[2, 9] if q else [1, 12], L=['n1d', 1000] if q else ['n1d', 1000, 1.0],
                k_edge_families=list(FAMS), first_edge=['0', '1.3*fundamental'], last_edge=['0.5 k_Ny', 'k_Ny', 'sqrt2 k_Ny', 'sqrt3 k_Ny + fundamental'],
                mu_bins=[1, 2, 5] if q else [1, 2, 3, 5, 10], Npi=[1, 3] if q else [1, 2, 3], pimax_over_kNy=[0.5, 1, 2],
                poles=polesets(tier), nthread=nthreads(tier), schedules=['chunks', 'roundrobin', 'onethread', 'revchunks'],
                fourier=[True] if q else [True, False], dtype=['float32'] if q else ['float32', 'float64'])


def polesets(tier):
    p = [[], [0], [0, 2, 4], [2], [2, 0], [1, 3]]        # [2, 0]: the monopole is not the first requested multipole; [1, 3]: odd orders
    if tier != 'quick':
        p += [[4, 0], [4, 2, 0], [3, 0, 1], [0, 2, 4, 6]]
    return p


def nthreads(tier):
    return [1, 2, 3, 16] if tier == 'quick' else [1, 2, 3, 4, 7, 16]


def box(n, Lc):
    return float(n) if Lc == 'n' else float(Lc)


def kedges(n, unit, fam, start, end):
    """edge array in physical units; unit = fundamental (2 pi / L) or cell (L / n); the Nyquist analogue is n/2 units"""
    kny = 0.5 * n * unit
    e1 = {'h': 0.5 * kny, 'n': kny, 's2': 2 ** 0.5 * kny, 's3': 3 ** 0.5 * kny + unit}[end]
    e0 = 0.0 if start == 0 else 1.3 * unit
    if not e1 > e0 * (1 + 1e-9):
        return None
    if fam == 'lin':
        e = np.linspace(e0, e1, n + 1)
    elif fam == 'one':
        e = np.array([e0, e1])
    elif fam == 'int':
        m0, m1 = int(np.ceil(e0 / unit - 1e-9)), int(np.floor(e1 / unit + 1e-9))
        e = unit * np.arange(m0, m1 + 1)
    elif fam == 'half':
        m = np.arange(0, 2 * n + 3) + 0.5
        m = m[(m * unit >= e0) & (m * unit <= e1 * (1 + 1e-12))]
        e = unit * m
        if start == 0:
            e = np.concatenate([[0.0], e])
    elif fam == 'log':
        lo = (1.0 - 1.0e-4) * unit if start == 0 else e0
        if not e1 > lo * (1 + 1e-9):
            return None
        e = np.geomspace(lo, e1, max(2, n // 2 + 1) + 1)
    e = np.asarray(e, dtype=np.float64)
    if len(e) < 2 or not (np.diff(e) > 1e-6 * unit).all():
        return None
    return e


def cases(tier, seed):
    q = tier == 'quick'
    # production-size mesh: more than 2^24 modes per bin, counts must still be exact integers (closed-form reference)
    yield dict(fn='bigcount', n=320 if q else 448, tier=tier)
    ns = range(2, 10) if q else range(1, 13)
    Ls = ('n', 1000) if q else ('n', 1000, 1.0)
    mubs = (1, 2, 5) if q else (1, 2, 3, 5, 10)
    npis = (1, 3) if q else (1, 2, 3)
    variants = [dict(fourier=True, dt='f4')]
    if not q:
        variants += [dict(fourier=False, dt='f4'), dict(fourier=True, dt='f8')]
    for n in ns:
        for Lc in Ls:
            for var in variants:
                if not var['fourier'] and Lc == 1000:
                    continue
                if var['dt'] == 'f8' and Lc != 'n':
                    continue
                L = box(n, Lc)
                unit = 2 * np.pi / L if var['fourier'] else L / n
                seen = set()
                for fam, start, end in itertools.product(FAMS, STARTS, ENDS):
                    e = kedges(n, unit, fam, start, end)
                    if e is None or e.tobytes() in seen:
                        continue
                    seen.add(e.tobytes())
                    base = dict(tier=tier, n=n, L=Lc, fam=fam, start=start, end=end, **var)
                    for mub in mubs:
                        yield dict(fn='kmu', mub=mub, **base)
                    if var['dt'] == 'f8':
                        continue
                    for npi in npis:
                        if q and Lc == 1000 and npi == 1:
                            continue      # quick: the second box size only rescales the edges; keep it for Npi = 3
                        for pimax in (0.5, 1, 2):
                            yield dict(fn='kppi', npi=npi, pimax=pimax, **base)


def selfcheck():
    """the reference plumbing against an independent direct histogram, and the matcher against planted errors"""
    from vf import c08_ref
    for n in (5, 6):
        L = float(n)
        dk = 2 * np.pi / L
        ke = kedges(n, dk, 'half', 0, 's2')
        mue = np.linspace(0, 1, 3)
        W = weights(n, True)
        ref = c08_ref.Binning(n, dk, 'kmu', ke, mue, W)
        assert ref.n_ambiguous <= 1 or n == 5, ref.n_ambiguous      # only the k = 0 mode, which sits on the first edge (0)
        f = np.fft.fftfreq(n, 1.0 / n) * dk
        kx, ky, kz = np.meshgrid(f, f, f, indexing='ij')
        k = np.sqrt(kx ** 2 + ky ** 2 + kz ** 2)
        mu = np.where(k > 0, np.abs(kz) / np.where(k > 0, k, 1), 0.0)
        H = np.histogram2d(k.ravel(), mu.ravel(), bins=(ke, mue))[0].astype(np.int64)
        N = ref.canonical()['N']
        assert np.array_equal(H, N), (H, N)
        assert int(N.sum()) + int((k >= ke[-1]).sum()) == n ** 3
        # stored value: sum over the full mesh of W at the representative == sum over half-complex with pair weights
        allin = c08_ref.Binning(n, dk, 'kmu', np.array([0.0, 100.0]), np.array([0.0, 1.0]), W).canonical()
        pair = np.full(W.shape, 2.0)
        pair[:, :, 0] = 1.0
        if n % 2 == 0:
            pair[:, :, n // 2] = 1.0
        assert int(allin['N'][0, 0]) == n ** 3 == int(pair.sum())
        assert abs(allin['S'][0, 0] - float((pair * W).sum())) < 1e-9 * n ** 3
        assert len(ref.solve(N)) >= 1
        bad = N.copy()
        i = np.argwhere(bad > 0)
        bad[tuple(i[0])] -= 1
        bad[tuple(i[-1])] += 1
        assert ref.solve(bad) == []
    # every shell on an edge: both conventions (lo, hi] and [lo, hi) are admissible, a mixed-up shell is not
    n, L = 6, 6.0
    dk = 2 * np.pi / L
    ke = kedges(n, dk, 'int', 0, 'n')
    ref = c08_ref.Binning(n, dk, 'kmu', ke, np.array([0.0, 1.0]), weights(n, True))
    A2 = ref.A2
    lo = np.array([[int(((A2 >= a * a) & (A2 < b * b)).sum())] for a, b in zip(range(0, 3), range(1, 4))])
    hi = np.array([[int(((A2 > a * a) & (A2 <= b * b)).sum()) + (1 if a == 0 else 0)] for a, b in zip(range(0, 3), range(1, 4))])
    assert ref.solve(lo) and ref.solve(hi) and not np.array_equal(lo, hi)
    wrong = lo.copy()
    wrong[0, 0] += 1
    wrong[1, 0] -= 1
    assert ref.solve(wrong) == []


def weights(n, fourier):
    if fourier:
        idx = np.arange(n * n * (n // 2 + 1), dtype=np.float64).reshape(n, n, n // 2 + 1)
    else:   # configuration space: a real symmetric mesh Xi(-r) = Xi(r)
        a, b, c = np.meshgrid(np.arange(n), np.arange(n), np.arange(n), indexing='ij')
        lin = (a * n + b) * n + c
        idx = np.minimum(lin, (((-a) % n) * n + ((-b) % n)) * n + ((-c) % n)).astype(np.float64)
    W = (1.0 + ((idx + 1.0) * PHI) % 1.0).astype(np.float32)
    W[idx % 7 == 3] = 0.0       # exact zeros: an empty mode is still a mode (it counts, and it pulls the mean down)
    return W


_K = {}


def worker_init():
    import numba  # noqa
    from abacusnbody.analysis import power_spectrum as ps
    _K['ps'] = ps


def get_twin(name):
    """the interpreted twin of ps.<name>, or a str: why the twin driver cannot be built for the present code (then the
    interpreted sub-runs are skipped and counted; the compiled runs still decide the property)"""
    key = 'twin_' + name
    if key not in _K:
        from vf import c08_twin, core
        try:
            _K[key] = c08_twin.Twin(_K['ps'], name)
        except Exception as e:
            st = core.stale_reason(e)
            if not st:
                raise
            _K[key] = st
    return _K[key]


def run_twin(ctx, fn, args, kw, nt, sched, how):
    """one interpreted run -> outputs or None (problem recorded / driver stale)"""
    from vf import core
    tw = get_twin('bin_' + fn)
    if isinstance(tw, str):
        ctx.extra['twin_runs_skipped_driver_stale'] += 1
        return None
    try:
        with np.errstate(all='ignore'):
            out = tw(*args, nthread=nt, sched=sched, **kw)
    except IndexError as e:
        arr, where = tw.oob_site(e)
        ctx.bad(f'{fn}:oob:{arr}', f'read/write past the end of an array: {e}; at {where}', how)
        return None
    except Exception as e:
        st = core.stale_reason(e)
        if not st:
            raise
        _K['twin_bin_' + fn] = st
        ctx.extra['twin_runs_skipped_driver_stale'] += 1
        return None
    finally:
        ctx.extra['twin_evals'] += 1
        ctx.extra['twin_accumulator_accesses'] += tw.naccess
    if tw.conflicts:
        ctx.bad(f'{fn}:shared-accumulator', 'two prange iterations on different virtual threads touch the same array element, at least one writing: '
                + tw.describe_conflicts(), how)
    return tuple(np.asarray(o) for o in out)


class Ctx:
    def __init__(self, case, ke, eB):
        self.case, self.ke, self.eB = case, ke, eB
        self.probs = {}
        self.extra = dict(modes_binned=0, bins_compared=0, compiled_evals=0, twin_evals=0, pk_evals=0, feasibility_branches=0,
                          twin_accumulator_accesses=0, runs_with_near_edge_choice=0, twin_runs_skipped_driver_stale=0,
                          edge_shells_put_above=0, edge_shells_put_below=0)
        self.maxleaves = 0
        self.diag = {}
        self.first_counts = None
        self.first_by_kind = {}

    def bad(self, sig, msg, how):
        if sig not in self.probs:
            self.probs[sig] = dict(sig=sig, msg=f'{msg}\n  run: {how}\n  input: {self.describe()}')

    def describe(self):
        c = self.case
        L = box(c['n'], c['L'])
        s = f"n1d={c['n']} L={L} fourier={c['fourier']} dtype={c['dt']} kedges[{c['fam']},start={c['start']},end={c['end']}]={np.array2string(self.ke, precision=6, separator=',', max_line_width=400)}"
        if c['fn'] == 'kmu':
            s += f" muedges=linspace(0,1,{c['mub'] + 1})"
        else:
            s += f" Npi={c['npi']} pimax={self.eB[-1]!r} (= {c['pimax']} x Nyquist)"
        return s


def first_diff(obs, exp):
    d = np.argwhere(np.asarray(obs) != np.asarray(exp))
    if not len(d):
        return 'none'
    t = tuple(int(x) for x in d[0])
    return f'bin {t}: observed {int(np.asarray(obs)[t])} expected {int(np.asarray(exp)[t])} ({len(d)} bins differ)'


def diagnose(ctx, ref_args, counts, ref, sums=None):
    """label an ESTABLISHED violation (never decides one): the smallest set of hypothetical defects for which the reference
    reproduces the observed integers and, with `sums` = (out, poles, eps, slack), also every reported mean"""
    from vf import c08_ref
    key = counts.tobytes() + (b'' if sums is None else b'sums' + repr(sums[1]).encode())
    if key in ctx.diag:
        return ctx.diag[key]
    n, unit, kind, ke, eB, W = ref_args
    flags = [f for f in ('oddfold', 'nyq2', 'kz0x2') if not (f == 'oddfold' and n % 2 == 0) and not (f == 'nyq2' and n % 2 == 1)]
    if kind == 'kppi':
        flags.append('jbreak')
    found = None
    for r in range(1, len(flags) + 1):
        for combo in itertools.combinations(flags, r):
            var = tuple(f for f in combo if f != 'jbreak')
            drops = [None]
            if 'jbreak' in combo:
                e2 = float(ref.eA2[-1])
                w = c08_ref.ULP_K * c08_ref.sp32(e2)
                drops = [c08_ref.jbreak_drop(n, e2 - w, var), c08_ref.jbreak_drop(n, e2 + w, var)]
            for drop in drops:
                try:
                    b = c08_ref.Binning(n, unit, kind, ke, eB, W, variant=var, drop=drop)
                except (AssertionError, RuntimeError):
                    continue
                lvs = b.solve(counts)
                if lvs and (sums is None or any(not compare_sums(b, lf, sums[0], sums[1], sums[2], sums[3]) for lf in lvs)):
                    found = combo
                    break
            if found:
                break
        if found:
            break
    ctx.diag[key] = found
    return found


def compare_sums(ref, lf, out, poles, eps, slack):
    """[] when the reported means are the means over exactly the modes of leaf `lf`; else [(sig-suffix, text)]"""
    errs = []
    N = lf['N'].astype(np.float64)
    tiny = 1e-30

    def cmp(name, obs, exp, tol):
        bad = ~(np.abs(obs - exp) <= tol)
        if bad.any():
            t = tuple(int(x) for x in np.argwhere(bad)[0])
            errs.append((name, f'{name}: bin {t}: N*mean observed {obs[t]!r} expected {exp[t]!r} (|diff| {abs(obs[t] - exp[t]):.3g} > tol {tol[t]:.3g}); {int(bad.sum())} bins off'))

    cnt = N + 32 + slack
    if ref.kind == 'kmu':
        power, counts, pp, npoles, kavg = out
    else:
        power, counts = out
    cmp('power', np.asarray(power, dtype=np.float64) * N, lf['S'], cnt * eps * lf['Sa'] + tiny)
    if ref.kind == 'kmu':
        cmp('k_avg', np.asarray(kavg, dtype=np.float64) * N, lf['K'], cnt * eps * lf['K'] + tiny)
        Np = N.sum(axis=1)
        cntp = Np + 32 + slack + ref.NB
        for ip, l in enumerate(poles):
            exp, expa = lf['P'][l]
            tol = cntp * eps * expa + (2 * l + 1) * 4 * l * l * EPS32 * lf['Va'] + tiny
            cmp(f'pole{l}', np.asarray(pp[ip], dtype=np.float64) * Np, exp, tol)
            if l == 0:   # the monopole is the mode-weighted mu-average of the wedges that were reported
                wed = (np.asarray(power, dtype=np.float64) * N).sum(axis=1)
                cmp('pole0-vs-wedges', np.asarray(pp[ip], dtype=np.float64) * Np, wed, cntp * eps * lf['Sa'].sum(axis=1) + tiny)
    return errs


def check_output(ctx, ref, ref_args, out, poles, how, eps, slack=0):
    fn = ctx.case['fn']
    NA, NB = ref.NA, ref.NB
    if fn == 'kmu':
        power, counts, pp, npoles, kavg = out
        shapes = dict(power=(power, (NA, NB)), counts=(counts, (NA, NB)), poles=(pp, (len(poles), NA)), counts_poles=(npoles, (NA,)), k_avg=(kavg, (NA, NB)))
    else:
        power, counts = out
        shapes = dict(power=(power, (NA, NB)), counts=(counts, (NA, NB)))
    for name, (a, shp) in shapes.items():
        if np.asarray(a).shape != shp:
            ctx.bad(f'{fn}:shape:{name}', f'{name} has shape {np.asarray(a).shape}, expected {shp}', how)
            return
    counts = np.asarray(counts)
    if counts.dtype.kind not in 'iu':
        ctx.bad(f'{fn}:counts-not-integer', f'mode counts have dtype {counts.dtype}', how)
        return
    counts = counts.astype(np.int64)
    if fn == 'kmu':
        if np.asarray(npoles).dtype.kind not in 'iu' or not np.array_equal(np.asarray(npoles), counts.sum(axis=1)):
            ctx.bad('kmu:counts_poles', f'N_mode_poles {np.asarray(npoles).tolist()} != sum over mu of N_mode {counts.sum(axis=1).tolist()}', how)
    # exact integers independent of thread count / schedule / multipole set.  Compiled (fastmath) and interpreted runs are only
    # compared within their own kind: they may round a squared edge differently and then legitimately differ on a near-edge shell.
    kindrun = 'interpreted' if how.startswith('interpreted') else 'compiled'
    if ctx.first_counts is None:
        ctx.first_counts = (counts.copy(), how)
    if kindrun not in ctx.first_by_kind:
        ctx.first_by_kind[kindrun] = (counts.copy(), how)
    elif not np.array_equal(ctx.first_by_kind[kindrun][0], counts):
        ctx.bad(f'{fn}:counts-depend-on-threads', f'mode counts differ between {kindrun} runs of the same binning: {first_diff(counts, ctx.first_by_kind[kindrun][0])}; '
                f'other run: {ctx.first_by_kind[kindrun][1]}', how)
    ctx.extra['modes_binned'] += ref.n ** 3
    ctx.extra['bins_compared'] += NA * NB
    fresh = counts.tobytes() not in ref._memo
    leaves = ref.solve(counts)
    if fresh:
        ctx.extra['feasibility_branches'] += ref.branches
    ctx.maxleaves = max(ctx.maxleaves, len(leaves))
    if not leaves:
        canon = ref.canonical()['N']
        found = diagnose(ctx, ref_args, counts, ref, sums=(out, poles, eps, slack))
        head = (f'mode counts are not the counts of the full mesh for any admissible near-edge assignment: total observed {int(counts.sum())} '
                f'vs reference {int(canon.sum())} (closed-below assignment; {ref.n_ambiguous} near-edge modes); {first_diff(counts, canon)}\n'
                f'  observed N_mode = {counts.tolist()}\n  reference N_mode = {canon.tolist()}')
        if found:
            for f in found:
                ctx.bad(f'{fn}:{LABEL[f]}', head + f'\n  the observed integers and all reported means are reproduced by the reference with: {" + ".join(LABEL[g] for g in found)}', how)
        else:
            ctx.bad(f'{fn}:count', head, how)
        return
    if any(lf['choice']['A'] or lf['choice']['B'] for lf in leaves):
        ctx.extra['runs_with_near_edge_choice'] += 1
    allerrs = [compare_sums(ref, lf, out, poles, eps, slack) for lf in leaves]
    if fresh:   # which side the implementation put the shells that sit on an edge (informational)
        lf = leaves[min(range(len(leaves)), key=lambda i: len(allerrs[i]))]
        for e, c in lf['choice']['A'].items():
            ctx.extra['edge_shells_put_above' if c else 'edge_shells_put_below'] += 1
    if not any(len(e) == 0 for e in allerrs):
        found = diagnose(ctx, ref_args, counts, ref, sums=(out, poles, eps, slack))
        for name, text in min(allerrs, key=len):
            if found:
                for f in found:
                    ctx.bad(f'{fn}:{LABEL[f]}', 'mode counts agree with the full mesh but the reported means do not: ' + text +
                            f'\n  counts and means are reproduced by the reference with: {" + ".join(LABEL[g] for g in found)}', how)
            else:
                ctx.bad(f'{fn}:{name}', text, how)


def run_bigcount(case):
    """n1d = 320/448: two k shells, the outer one holding > 2^24 modes; N_mode must be the exact integer count for
    every thread count.  Reference: integer arithmetic on the half mesh (edges chosen at half-integer |k|^2 / mu^2 values far
    from any mode, so no edge convention enters)."""
    ps = _K['ps']
    n = case['n']
    L = float(n)
    kf = 2 * np.pi / L
    fr = np.fft.fftfreq(n, 1.0 / n).astype(np.int64)
    kz = np.arange(n // 2 + 1, dtype=np.int64)
    r2 = (fr[:, None, None] ** 2 + fr[None, :, None] ** 2 + kz[None, None, :] ** 2)
    mult = np.where((kz == 0) | ((n % 2 == 0) & (kz == n // 2)), 1, 2)[None, None, :] * np.ones_like(r2)
    e2 = np.array([0.0, (0.35 * n) ** 2 + 0.5, (0.9 * n) ** 2 + 0.5])       # squared edges in mode units
    ke = np.sqrt(e2) * kf
    mu_edges = np.array([0.0, 1.0])
    exp = np.zeros((2, 1), dtype=np.int64)
    for b in range(2):
        inb = (r2 > e2[b]) & (r2 <= e2[b + 1]) if b else (r2 >= 0) & (r2 <= e2[1])
        exp[b, 0] = int((mult * inb).sum())
    W = np.ones((n, n, n // 2 + 1), dtype=np.float32)
    probs = []
    ev = 0
    first = None
    for nt in (1, 3, 16):
        out = ps.bin_kmu(n, L, ke, mu_edges, W, poles=np.array([0], dtype=np.int64), nthread=nt)
        ev += 1
        counts = np.asarray(out[1])
        # the |k| = 0 mode sits exactly ON the first edge (kedges[0] == 0): like every on-edge mode it may fall either side
        admissible = [exp, exp - np.array([[1], [0]])]
        if counts.dtype.kind not in 'iu' or not any(np.array_equal(counts, a) for a in admissible):
            probs.append(dict(sig='kmu:count:large-mesh', msg=f'n1d={n} nthread={nt}: N_mode {counts.tolist()} (dtype {counts.dtype}) but the mesh holds exactly {exp.tolist()} modes in these bins (first bin: one less if the k=0 mode on the first edge is excluded)'))
        if first is None:
            first = counts.copy()
        elif not np.array_equal(first, counts):
            probs.append(dict(sig='kmu:counts-depend-on-threads:large-mesh', msg=f'n1d={n} nthread={nt}: N_mode {counts.tolist()} differs from the nthread=1 run {first.tolist()}'))
        if not any(np.array_equal(np.asarray(out[3]), a.sum(axis=1)) for a in admissible) or not np.array_equal(np.asarray(out[3]), counts.sum(axis=1)):
            probs.append(dict(sig='kmu:counts_poles:large-mesh', msg=f'n1d={n} nthread={nt}: N_mode_poles {np.asarray(out[3]).tolist()} expected {exp.sum(axis=1).tolist()} (= sum over mu of N_mode)'))
    return dict(problems=probs[:2], evals=ev, nt=[('bigcount', n, int(exp.max()))], extra=dict(bigcount_modes=int(exp.sum())),
                max=dict(largest_bin_count=int(exp.max())))


def run(case):
    from vf import c08_ref, c08_twin
    if case['fn'] == 'bigcount':
        return run_bigcount(case)
    ps = _K['ps']
    fn, n = case['fn'], case['n']
    L = box(n, case['L'])
    fourier = case['fourier']
    eps = c08_ref.EPS32 if case['dt'] == 'f4' else 1e-13
    unit = 2 * np.pi / L if fourier else L / n
    ke = kedges(n, unit, case['fam'], case['start'], case['end'])
    W = weights(n, fourier)
    if case['dt'] == 'f8':
        W = W.astype(np.float64)
    if fn == 'kmu':
        eB = np.linspace(0.0, 1.0, case['mub'] + 1)
        kind = 'kmu'
    else:
        pimax = float(case['pimax'] * 0.5 * n * unit)
        eB = np.linspace(0.0, pimax, case['npi'] + 1)
        kind = 'kppi'
    ref_args = (n, unit, kind, ke, eB, W)
    ref = c08_ref.Binning(*ref_args)
    ctx = Ctx(case, ke, eB)
    frozen = (W.copy(), ke.copy(), eB.copy())
    tier = case['tier']
    NT = nthreads(tier)
    evals = 0
    kw = {}
    if not fourier:
        kw['fourier'] = False
    if case['dt'] == 'f8':
        kw['dtype'] = np.float64

    if fn == 'kmu':
        PS = polesets(tier)
        for nt in NT:
            for poles in PS:
                pa = np.array(poles, dtype=np.int64) if poles else np.empty(0, 'i8')
                out = ps.bin_kmu(n, L, ke, eB, W, pa, nthread=nt, **kw)
                evals += 1
                ctx.extra['compiled_evals'] += 1
                check_output(ctx, ref, ref_args, out, poles, f'compiled bin_kmu poles={poles} nthread={nt}', eps)
        if fourier and case['dt'] == 'f4':
            idx = np.arange(W.size, dtype=np.float64).reshape(W.shape)
            field = (np.sqrt(W.astype(np.float64)) * np.exp(2j * np.pi * ((idx * PHI * PHI) % 1.0))).astype(np.complex64)
            poles = [0, 2, 4]
            for squeeze in ((True, False) if case['mub'] == 1 else (True,)):
                r = ps.calc_pk_from_deltak(field, L, ke, eB, poles=np.array(poles), nthread=3, squeeze_mu_axis=squeeze)
                evals += 1
                ctx.extra['pk_evals'] += 1
                how = f'calc_pk_from_deltak(|field|^2 = weights) poles={poles} nthread=3 squeeze_mu_axis={squeeze}'
                sq = squeeze and case['mub'] == 1
                want = (ref.NA,) if sq else (ref.NA, ref.NB)
                if any(np.asarray(r[k]).shape != want for k in ('power', 'N_mode', 'k_avg')):
                    ctx.bad('pk:shape', f"power/N_mode/k_avg shapes {[np.asarray(r[k]).shape for k in ('power', 'N_mode', 'k_avg')]}, expected {want}", how)
                    continue
                rs = (lambda a: np.asarray(a).reshape(ref.NA, ref.NB))
                out = (rs(r['power']).astype(np.float64) / L ** 3, rs(r['N_mode']), np.asarray(r['binned_poles'], dtype=np.float64) / L ** 3,
                       r['N_mode_poles'], rs(r['k_avg']))
                check_output(ctx, ref, ref_args, out, poles, how, eps, slack=16)
        for si, sched in enumerate(c08_twin.SCHEDULES):
            nt = NT[(si + n) % len(NT)]
            poles = [0, 2, 4]
            how = f'interpreted bin_kmu poles={poles} virtual nthread={nt} schedule={sched}'
            out = run_twin(ctx, 'kmu', (n, L, ke, eB, W, np.array(poles)), kw, nt, sched, how)
            evals += 1
            if out is not None:
                check_output(ctx, ref, ref_args, out, poles, how, eps)
    else:
        for nt in NT:
            out = ps.bin_kppi(n, L, ke, float(eB[-1]), case['npi'], W, nthread=nt, **kw)
            evals += 1
            ctx.extra['compiled_evals'] += 1
            check_output(ctx, ref, ref_args, out, [], f'compiled bin_kppi nthread={nt}', eps)
        for si, sched in enumerate(c08_twin.SCHEDULES):
            nt = NT[(si + n) % len(NT)]
            how = f'interpreted bin_kppi virtual nthread={nt} schedule={sched}'
            out = run_twin(ctx, 'kppi', (n, L, ke, float(eB[-1]), case['npi'], W), kw, nt, sched, how)
            evals += 1
            if out is not None:
                check_output(ctx, ref, ref_args, out, [], how, eps)

    if not (np.array_equal(frozen[0], W) and np.array_equal(frozen[1], ke) and np.array_equal(frozen[2], eB)):
        ctx.bad(f'{fn}:input-modified', 'an input array (weights / edges) was modified by the call', 'any')

    canon = ref.canonical()['N']
    populated = int((canon > 0).sum())
    nt_keys = []
    if populated >= 2:
        nt_keys = [(fn, n, case['L'], case['fourier'], case['dt'], case['fam'], case['start'], case['end'], case.get('mub'), case.get('npi'), case.get('pimax'))]
    extra = dict(ctx.extra)
    extra['near_edge_modes'] = ref.n_ambiguous
    extra['near_edge_classes'] = len(ref.Aclasses) + len(ref.Bclasses)
    extra['modes_outside_range'] = int(n ** 3 - canon.sum())
    sample = None
    if (n in (4, 5) and case['L'] == 'n' and case['fam'] == 'lin' and case['start'] == 0 and case['end'] == 's2' and fourier and case['dt'] == 'f4'
            and (case.get('mub') == 2 or (case.get('npi') == 3 and case.get('pimax') == 1))):
        sample = dict(case=case, kedges=ke.tolist(), mu_or_pi_edges=eB.tolist(), reference_N_mode_closed_below=canon.tolist(),
                      observed_N_mode=None if ctx.first_counts is None else ctx.first_counts[0].tolist(),
                      near_edge_modes=ref.n_ambiguous, modes_outside_range=int(n ** 3 - canon.sum()), runs=evals,
                      problems=sorted(ctx.probs))
    return dict(problems=list(ctx.probs.values()), evals=evals, nt=nt_keys, extra=extra, max=dict(max_feasible_assignments=ctx.maxleaves), sample=sample)

"""C09 - galaxies follow the HOD threshold rule and inherit their host.

One case = (parameter set, geometry, RSD on/off, box observer / light-cone origin, Nthread).  A case builds ONE
factorial table of hosts and particles (vf/c09_ref.build_table) and executes abacusnbody.hod.GRAND_HOD.gen_gal_cat
on it for all 7 non-empty tracer subsets (x 3 incompleteness values for the 'ic' sets).  Every returned galaxy is
traced back to its host halo / particle and compared with the plain-numpy reference hod_ref; every host of the
table is decided (galaxy of tracer T / no galaxy) by the reference and compared with the catalogue.
"""
import os
import sys
import time

import numpy as np

from vf import c09_ref as R

PID = 'C09'
LEVEL = 'exploration'
RULE = ('cases = parameter sets x geometry x RSD x {box observer, light-cone origin} x Nthread; each case runs gen_gal_cat '
        'for all 7 non-empty subsets of (LRG,ELG,QSO) (x ic in {0.2,0.5,1} for the ic sets) on one table that is the full '
        'factorial mass{1e11,10^12.5,1e13,1e14,1e15} x multiplicity{1,0.3,0} x secondary ranks(4 triples) x stored random '
        '{0,1e-12,0.999,1, every cumulative marker of every subset -1e-9/exact/+1e-9, middle of every slice} for halos, and '
        'carrier halos (mass x secondary x central outcome none/LRG/ELG/QSO) x weight{1,0.3,0.01,0} x particle ranks(3) x '
        'the same random alphabet for particles; the tracer dict is passed in reverse insertion order when Nthread != 1. Every host/particle of every run is decided by hod_ref and every galaxy '
        'row compared. non-trivial = distinct (parameter set, ic, subset, RSD mode, tracer, central/satellite) whose '
        'catalogue part is non-empty and does not contain every host')
ASSUMPTIONS = ['widths are obtained by calling the package\'s own mean-occupation functions (the property defines them so)',
               'float64 inputs and int64 ids as produced by AbacusHOD.staging',
               'secondary-bias, conformity (satellite M1 without shear term in the conformity branches) and rank-decorator '
               'parameter formulas as in docs/hod.rst and the cited papers',
               'a stored random within 1e-12 (relative) of a slice edge may fall on either side; a stored random of exactly 0 '
               'in front of a disabled LRG slot may yield no galaxy',
               'line-of-sight shifts are below L/2 (one wrap suffices); positions lie in [-L/2, L/2)',
               'NFW satellite path (fresh np.random numbers), write_to_disk and z-evolving parameters (logM_cut_pr) are out of scope']
WORKERS = 6
CHUNK = 1
ENVS = {'lc': {'VF_C09_POOL': 'lc'}}     # light-cone cases (second numba signature) get their own worker pool

GEOMS = [dict(L=2000.0, velz2kms=87.5, origin=(-990.0, -990.0, -990.0)),
         dict(L=500.0, velz2kms=123.4, origin=(10.0, -20.0, 700.0))]
PSETS_QUICK = ['base', 'ic', 'ab', 'conf+ab', 'ranks', 'vb']
PSETS_THOROUGH = PSETS_QUICK + ['conf', 'vb2', 'icmix', 'ic+vb', 'ab+conf+ranks+vb', 'b2', 'b2+ic', 'b2+ab+conf+ranks+vb', 'b2+icmix+ranks']
COLS = ('x', 'y', 'z', 'vx', 'vy', 'vz', 'mass')


def BOUNDS(tier):
    return dict(parameter_sets=PSETS_QUICK if tier == 'quick' else PSETS_THOROUGH, geometries=GEOMS[:1] if tier == 'quick' else GEOMS,
                nthread=[1, 3] if tier == 'quick' else [1, 2, 3, 16], masses=R.MASSES, multiplicities=R.MULTIS, weights=R.WEIGHTS,
                secondary_triples=R.SEC, particle_rank_tuples=R.PRANKS, tracer_subsets=7, ic_values=[0.2, 0.5, 1.0],
                table_rows='halos 7280 / particles 49920 (ic sets: 20720 / 142080)')


def cases(tier, seed):
    modes = ((False, False), (True, False), (True, True), (False, True))      # (rsd, light-cone origin)
    todo = []
    if tier == 'quick':
        for ps in PSETS_QUICK:
            if ps == 'ic':      # 21 runs per case on a 3x larger table: three cases suffice for the nesting relations
                todo += [(ps, 0, True, False, 1), (ps, 0, True, True, 1), (ps, 0, False, False, 3)]
                continue
            todo += [(ps, 0, rsd, lc, 1) for rsd, lc in modes]
            if ps in ('base', 'conf+ab'):
                todo += [(ps, 0, True, False, 3), (ps, 0, True, True, 3)]
    else:
        for ps in PSETS_THOROUGH:
            for g in (0, 1):
                for rsd, lc in modes:
                    for nt in ((1, 3, 2, 16) if g == 0 else (1, 3)):
                        todo.append((ps, g, rsd, lc, nt))
    for ps, g, rsd, lc, nt in todo:
        c = dict(pset=ps, geom=g, rsd=rsd, lc=lc, nthread=nt)
        if lc:
            c['env'] = 'lc'
        yield c


_TAB = {}


def table(psname, g):
    key = (psname, g)
    if key not in _TAB:
        if len(_TAB) >= 2:
            _TAB.clear()
        ps = R.pset(psname)
        _TAB[key] = (ps, R.build_table(ps, GEOMS[g]))
    return _TAB[key]


def worker_init():
    R.occ()


def _colmatch(obs, exp, mode, L):
    """obs [...,7] vs exp [...,7] -> boolean [...,7]"""
    m = np.empty(np.broadcast(obs, exp).shape, dtype=bool)
    m[..., 6] = obs[..., 6] == exp[..., 6]
    m[..., 3:6] = np.isclose(obs[..., 3:6], exp[..., 3:6], rtol=1e-12, atol=1e-9)
    if mode == 'none':
        m[..., 0:3] = obs[..., 0:3] == exp[..., 0:3]
    elif mode == 'box':
        m[..., 0:2] = obs[..., 0:2] == exp[..., 0:2]
        d = obs[..., 2] - exp[..., 2]
        d = d - L * np.round(d / L)
        m[..., 2] = np.abs(d) <= 1e-10 * L
    else:
        m[..., 0:3] = np.abs(obs[..., 0:3] - exp[..., 0:3]) <= 1e-10 * L
    return m


def _match(obs, exp_all, cand, valid, mode, L):
    """-> assigned candidate (index into exp_all) or -1, and for failures the mismatching columns of the best candidate"""
    N = len(obs)
    if N == 0:
        return np.zeros(0, dtype=np.int64), dict(bad={}, nbad=0, ambiguous=0)
    M = _colmatch(obs[:, None, :], exp_all[cand], mode, L) & valid[:, :, None]
    full = M.all(axis=2)
    nm = full.sum(axis=1)
    ass = np.where(nm >= 1, cand[np.arange(N), full.argmax(axis=1)], -1)
    bad = {}
    for i in np.flatnonzero(nm == 0)[:50]:
        if not valid[i].any():
            bad[int(i)] = ('no-candidate', -1)
            continue
        sc = M[i].sum(axis=1) - 100 * (~valid[i])
        j = int(sc.argmax())
        bad[int(i)] = ('+'.join(c for c, ok in zip(COLS, M[i, j]) if not ok), int(cand[i, j]))
    ambiguous = int((nm > 1).sum())
    return ass, dict(bad=bad, nbad=int((nm == 0).sum()), ambiguous=ambiguous)


def _digest(d, keys=None):
    """content hash of the arrays under `keys` (default: all keys now present)"""
    import hashlib
    h = hashlib.sha1()
    for k in (sorted(d) if keys is None else keys):
        if k not in d:
            h.update(b'<missing:' + k.encode() + b'>')
            continue
        h.update(k.encode())
        h.update(np.ascontiguousarray(d[k]).tobytes())
    return h.hexdigest()


def run(case):
    from abacusnbody.hod.GRAND_HOD import gen_gal_cat
    _t0 = time.time()
    psname, g, rsd, lc, nthread = case['pset'], case['geom'], case['rsd'], case['lc'], case['nthread']
    ps, T = table(psname, g)
    geom = GEOMS[g]
    L, velz = geom['L'], geom['velz2kms']
    origin = np.array(geom['origin'], dtype=np.float64) if lc else None
    mode = 'none' if not rsd else ('lc' if lc else 'box')
    with_ab = psname != 'base'
    hd, pd = R.halo_dict(T, with_ab), R.part_dict(T, with_ab)
    keys0 = (sorted(hd), sorted(pd))      # only the arrays the caller handed in count as inputs (defaults may be cached under new keys)
    dig0 = (_digest(hd, keys0[0]), _digest(pd, keys0[1]))
    params = dict(z=0.5, h=0.6736, Lbox=L, Mpart=2.109e9, velz2kms=velz, origin=origin, chunk=-1, numslabs=1)
    probs, nt = [], []
    ex = dict(runs=0, host_decisions=0, particle_decisions=0, galaxies_checked=0, centrals_checked=0, satellites_checked=0,
              edge_tolerated=0, strict_decisions=0, zero_random_convention=0, wrapped_galaxies=0, landed_on_box_edge=0, bitwise_catalogue_comparisons=0,
              nested_comparisons=0)
    sample = None

    def P(sig, msg):
        if sum(1 for q in probs if q['sig'] == sig) < 1:
            probs.append(dict(sig=sig, msg=f'{msg}\n[pset={psname} geom={geom} rsd={rsd} lightcone={lc} Nthread={nthread}]'))

    # expected rows per tracer (as if every host were selected)
    expc, exps = {}, {}
    for k in range(3):
        d = ps['tracers'][R.TR[k]]
        x, v = R.expected_rows(T.hpos, T.hvel, T.hveldev, d['alpha_c'], rsd, L, velz, origin)
        expc[k] = np.concatenate([x, v, T.hmass[:, None]], axis=1)
        x, v = R.expected_rows(T.ppos, T.phvel, T.pvel - T.phvel, d['alpha_s'], rsd, L, velz, origin)
        exps[k] = np.concatenate([x, v, T.phmass[:, None]], axis=1)
    results = {}
    assigned = {}
    for ic in ps['ics']:
        for sub in R.SUBSETS:
            tr = R.tracers_for(ps, sub, ic, reverse=(nthread != 1))
            en = [k in sub for k in range(3)]
            out = gen_gal_cat(hd, pd, tr, params, Nthread=nthread, enable_ranks=ps['enable_ranks'], rsd=rsd, nfw=False,
                              write_to_disk=False, verbose=False)
            ex['runs'] += 1
            tag = f'subset={[R.TR[k] for k in sub]} ic={ic}'
            if sorted(out.keys()) != sorted(tr.keys()):
                P('output:tracer-keys', f'{tag}: returned tracers {sorted(out.keys())}')
                continue
            # ---- reference decisions
            Wc = R.cen_widths(tr, T.hmass, T.hmultis, T.hdeltac, T.hfenv, T.hshear, grp=T.hgrp)
            Ah = R.allowed(T.hrandoms, Wc, en)
            Ap = np.zeros((T.P, 4), dtype=bool)
            Wp_by_kc = {}
            kcmask = {0: Ah[:, 0] | Ah[:, 3], 1: Ah[:, 1], 2: Ah[:, 2]}
            for kc in (0, 1, 2):
                mk = kcmask[kc][T.pinds]
                if not mk.any():
                    continue
                Wp = R.sat_widths(tr, ps['enable_ranks'], T.phmass, T.pweights, T.pdeltac, T.pfenv, T.pshear, T.prk, kc, grp=T.pgrp)
                Wp_by_kc[kc] = Wp
                Ap |= R.allowed(T.prandoms, Wp, en) & mk[:, None]
            ex['host_decisions'] += T.H
            ex['particle_decisions'] += T.P
            ex['edge_tolerated'] += int((Ah.sum(axis=1) > 1).sum() + (Ap.sum(axis=1) > 1).sum())
            ex['strict_decisions'] += int((Ah.sum(axis=1) == 1).sum() + (Ap.sum(axis=1) == 1).sum())
            ex['zero_random_convention'] += int(((T.hrandoms == 0) & Ah[:, 0] & (Ah.sum(axis=1) > 1)).sum()) if not en[0] else 0
            seen_c, seen_s = [], []
            res = {}
            for k in sub:
                tn = R.TR[k]
                gal = out[tn]
                try:
                    ncen = int(gal['Ncent'])
                    arr = np.stack([np.asarray(gal[c], dtype=np.float64) for c in COLS], axis=1)
                    ids = np.asarray(gal['id'])
                except Exception as e:  # ragged columns etc.
                    P(f'output:malformed:{tn}', f'{tag}: {type(e).__name__}: {e}; lengths { {c: len(gal[c]) for c in gal if c != "Ncent"} }')
                    continue
                N = len(arr)
                if len(ids) != N or not (0 <= ncen <= N):
                    P('output:ncent-or-length', f'{tag} {tn}: Ncent={ncen}, rows={N}, ids={len(ids)}')
                    continue
                if any(np.asarray(gal[c]).dtype != np.float64 for c in COLS) or ids.dtype != np.int64:
                    P('output:dtype', f'{tag} {tn}: dtypes { {c: str(np.asarray(gal[c]).dtype) for c in gal if c != "Ncent"} }')
                res[tn] = dict(Ncent=ncen, **{c: np.asarray(gal[c]) for c in COLS}, id=ids)
                ex['galaxies_checked'] += N
                ex['centrals_checked'] += ncen
                ex['satellites_checked'] += N - ncen
                if not np.isfinite(arr).all():
                    P(f'field:nonfinite:{tn}', f'{tag} {tn}: non-finite values in the catalogue')
                if mode == 'box':
                    oz = arr[:, 2]
                    if ((oz < -L / 2) | (oz >= L / 2)).any():
                        i = int(np.argmax((oz < -L / 2) | (oz >= L / 2)))
                        P('rsd:z-outside-box', f'{tag} {tn}: galaxy {i} (id {ids[i]}) has z={float(oz[i])!r} outside [-L/2, L/2) with L={L}')
                hidx = np.searchsorted(T.hid, ids)
                hidx_c = np.minimum(hidx, T.H - 1)
                known = T.hid[hidx_c] == ids
                if not known.all():
                    i = int(np.argmax(~known))
                    P('field:id-not-a-host-id', f'{tag} {tn}: galaxy {i} of {N} (Ncent={ncen}) has id {ids[i]} which is no halo id of the table; row={arr[i].tolist()}')
                for kind, sl, expall, A, seen in (('cent', slice(0, ncen), expc[k], Ah, seen_c), ('sat', slice(ncen, N), exps[k], Ap, seen_s)):
                    o = arr[sl]
                    h = hidx_c[sl]
                    kn = known[sl]
                    if kind == 'cent':
                        cand = h[:, None]
                        valid = kn[:, None]
                    else:
                        cand = T.pstart[h][:, None] + np.arange(T.K)[None, :]
                        valid = (np.arange(T.K)[None, :] < T.pcount[h][:, None]) & kn[:, None]
                        cand = np.where(valid, cand, 0)
                    ass, info = _match(o, expall, cand, valid, mode, L)
                    if len(o) and info['nbad']:
                        for i, (colsbad, j) in info['bad'].items():
                            gi = i + sl.start
                            if colsbad == 'no-candidate':
                                if kn[i]:
                                    P(f'order:{kind}:row-is-not-a-{kind}', f'{tag} {tn}: row {gi} (Ncent={ncen}) id {ids[gi]} lies in the {kind} block but its host has no such candidate; row={arr[gi].tolist()}')
                                continue
                            src = (f'halo {j}: mass={T.hmass[j]!r} pos={T.hpos[j].tolist()} vel={T.hvel[j].tolist()} veldev={T.hveldev[j].tolist()} random={T.hrandoms[j]!r}' if kind == 'cent' else
                                   f'particle {j} of halo {T.pinds[j]}: hmass={T.phmass[j]!r} ppos={T.ppos[j].tolist()} pvel={T.pvel[j].tolist()} hvel={T.phvel[j].tolist()} random={T.prandoms[j]!r}')
                            # is the row a faithful copy of ANOTHER host of the table (then only the id is wrong)?
                            elsewhere = np.flatnonzero(_colmatch(o[i][None, :], expall, mode, L).all(axis=1))
                            if len(elsewhere):
                                q = int(elsewhere[0])
                                true_id = int(T.hid[q]) if kind == 'cent' else int(T.phid[q])
                                P(f'field:{kind}:id:{mode}', f'{tag} {tn}: galaxy row {gi} (Ncent={ncen}) carries id {ids[gi]} but all its other columns are those of '
                                  f'{"halo" if kind == "cent" else "particle"} {q} whose host id is {true_id}; row={dict(zip(COLS, arr[gi].tolist()))}')
                                continue
                            other, okind = (exps[k], 'sat') if kind == 'cent' else (expc[k], 'cent')
                            inother = np.flatnonzero(_colmatch(o[i][None, :], other, mode, L).all(axis=1))
                            if len(inother):
                                P(f'order:{kind}-block-holds-a-{okind}', f'{tag} {tn}: row {gi} of {N} with Ncent={ncen} lies in the {kind} block but is the {okind} galaxy of '
                                  f'{"particle" if okind == "sat" else "halo"} {int(inother[0])}; row={dict(zip(COLS, arr[gi].tolist()))}')
                                continue
                            P(f'field:{kind}:{colsbad}:{mode}',
                              f'{tag} {tn}: galaxy row {gi} (Ncent={ncen}, id {ids[gi]}) does not equal its host in columns {colsbad}:\n observed {dict(zip(COLS, arr[gi].tolist()))}\n expected {dict(zip(COLS, expall[j].tolist()))}\n from {src}; alpha_c={ps["tracers"][tn]["alpha_c"]} alpha_s={ps["tracers"][tn]["alpha_s"]} velz2kms={velz} L={L} origin={None if origin is None else origin.tolist()}')
                    ok = ass >= 0
                    a = ass[ok]
                    # threshold rule: selected hosts must be allowed to carry this tracer ...
                    notal = ~A[a, k + 1]
                    if notal.any():
                        j = int(a[np.argmax(notal)])
                        P(f'select:{kind}:{tn}:outside-slice', f'{tag}: {_describe(kind, j, T, Wc, Wp_by_kc, Ah)} received a {tn} {kind} galaxy but its stored random is outside the {tn} slice ({int(notal.sum())} such hosts)')
                    # ... every host whose random is strictly inside the slice must be there ...
                    must = A[:, k + 1] & (A.sum(axis=1) == 1)
                    got = np.zeros(len(A), dtype=bool)
                    got[a] = True
                    miss = must & ~got
                    if miss.any() and not info['nbad']:
                        j = int(np.argmax(miss))
                        P(f'select:{kind}:{tn}:missing', f'{tag}: {_describe(kind, j, T, Wc, Wp_by_kc, Ah)} has its stored random inside the {tn} slice but no {tn} {kind} galaxy was generated ({int(miss.sum())} such hosts)')
                    # ... exactly once
                    if len(np.unique(a)) != len(a):
                        u, cnt = np.unique(a, return_counts=True)
                        j = int(u[np.argmax(cnt)])
                        P(f'one-per-host:{kind}:{tn}', f'{tag}: {_describe(kind, j, T, Wc, Wp_by_kc, Ah)} appears {int(cnt.max())} times in the {tn} catalogue')
                    seen.append(a)
                    assigned[(ic, sub, tn, kind)] = np.unique(a) if not info['nbad'] else None
                    nsel = len(a)
                    ex['populations_checked'] = ex.get('populations_checked', 0) + 1     # one (call, tracer, central|satellite) population compared with the model
                    if 0 < nsel < len(A):
                        nt.append((psname, ic, list(sub), mode, tn, kind))
                    if mode == 'box' and len(a):
                        src = (T.hpos[a, 2] if kind == 'cent' else T.ppos[a, 2]) + expall[a, 5] / velz
                        ex['wrapped_galaxies'] += int(((src >= L / 2) | (src < -L / 2)).sum())
                        ex['landed_on_box_edge'] += int((np.abs(np.abs(src) - L / 2) < 1e-9).sum())
                    if sample is None and kind == 'cent' and len(sub) == 3 and k == 1 and nsel:
                        j = int(a[0])
                        sample = dict(case=case, subset=[R.TR[q] for q in sub], host=_describe('cent', j, T, Wc, Wp_by_kc, Ah), outcome='ELG central',
                                      galaxy=dict(zip(COLS, o[ok][0].tolist())), galaxies_in_run={t: int(len(out[t]['x'])) for t in out})
            for kind, seen in (('cent', seen_c), ('sat', seen_s)):
                if seen:
                    al = np.concatenate(seen)
                    if len(np.unique(al)) != len(al):
                        u, cnt = np.unique(al, return_counts=True)
                        j = int(u[np.argmax(cnt)])
                        P(f'one-per-host:{kind}:across-tracers', f'{tag}: {_describe(kind, j, T, Wc, Wp_by_kc, Ah)} carries {int(cnt.max())} galaxies of different tracers')
            results[(ic, sub)] = res

    # ---- enabling a later tracer never changes earlier ones (bitwise)
    for ic in ps['ics']:
        for tn, ref, others in (('LRG', (0,), [(0, 1), (0, 2), (0, 1, 2)]), ('ELG', (1,), [(1, 2)]), ('ELG', (0, 1), [(0, 1, 2)])):
            a = results.get((ic, ref), {}).get(tn)
            for o in others:
                b = results.get((ic, o), {}).get(tn)
                if a is None or b is None:
                    continue
                ex['bitwise_catalogue_comparisons'] += 1
                diff = [c for c in a if (a[c] != b[c] if c == 'Ncent' else not np.array_equal(a[c], b[c]))]
                if diff:
                    P(f'later-tracer-changes-earlier:{tn}', f'ic={ic}: the {tn} catalogue of subset {[R.TR[q] for q in ref]} differs from that of subset {[R.TR[q] for q in o]} in {diff} '
                      f'(rows {len(a["x"])} vs {len(b["x"])}, Ncent {a["Ncent"]} vs {b["Ncent"]})')
    # ---- selections are nested as incompleteness grows
    if len(ps['ics']) > 1:
        ics = sorted(ps['ics'])
        kc_free = not ({'ab', 'conf'} & set(psname.split('+')))   # ELG satellite widths then do not depend on the host's central
        for sub in R.SUBSETS:
            for kind in ('cent', 'sat'):
                if kind == 'sat' and not kc_free and sub[0] == 1:
                    continue
                for lo_ic, hi_ic in zip(ics[:-1], ics[1:]):
                    first = R.TR[sub[0]]
                    a, b = assigned.get((lo_ic, sub, first, kind)), assigned.get((hi_ic, sub, first, kind))
                    if a is None or b is None:
                        continue
                    ex['nested_comparisons'] += 1
                    lost = np.setdiff1d(a, b)
                    if len(lost):
                        P(f'nested-ic:{kind}:first-tracer', f'subset {[R.TR[q] for q in sub]}: {len(lost)} {first} {kind} hosts selected at ic={lo_ic} are not selected at ic={hi_ic}, e.g. host index {int(lost[0])}')
                    if kind == 'cent' or kc_free:
                        ua = [assigned.get((lo_ic, sub, R.TR[q], kind)) for q in sub]
                        ub = [assigned.get((hi_ic, sub, R.TR[q], kind)) for q in sub]
                        if all(x is not None for x in ua + ub):
                            ex['nested_comparisons'] += 1
                            lost = np.setdiff1d(np.concatenate(ua), np.concatenate(ub))
                            if len(lost):
                                P(f'nested-ic:{kind}:any-tracer', f'subset {[R.TR[q] for q in sub]}: {len(lost)} {kind} hosts carrying a galaxy at ic={lo_ic} carry none at ic={hi_ic}, e.g. host index {int(lost[0])}')
    # successive calls that reuse ONE tracers dict which the caller updates in place between calls (the usual fitting loop):
    # the second call must equal a call with a freshly built dict holding the same numbers
    import copy
    for sub in ((1,), (0, 1, 2)):
        tr = R.tracers_for(ps, sub, ps['ics'][-1])
        gen_gal_cat(hd, pd, tr, params, Nthread=nthread, enable_ranks=ps['enable_ranks'], rsd=rsd, nfw=False, write_to_disk=False, verbose=False)
        for t in tr:
            tr[t]['logM1'] = tr[t]['logM1'] - 0.4
            tr[t]['alpha'] = tr[t]['alpha'] * 0.8
            tr[t]['logM_cut'] = tr[t]['logM_cut'] + 0.15
        want = {t: {k: v for k, v in d.items()} for t, d in tr.items()}
        second = gen_gal_cat(hd, pd, tr, params, Nthread=nthread, enable_ranks=ps['enable_ranks'], rsd=rsd, nfw=False, write_to_disk=False, verbose=False)
        fresh_tr = {t: {k: d[k] for k in want[t] if k in R.tracers_for(ps, sub, ps['ics'][-1])[t]} for t, d in tr.items()}
        fresh = gen_gal_cat(hd, pd, copy.deepcopy(fresh_tr), params, Nthread=nthread, enable_ranks=ps['enable_ranks'], rsd=rsd, nfw=False, write_to_disk=False, verbose=False)
        ex['runs'] += 3
        for t in fresh:
            for k in fresh[t]:
                a, b = np.asarray(second[t][k]), np.asarray(fresh[t][k])
                if a.shape != b.shape or a.tobytes() != b.tobytes():
                    P('successive-calls:reused-tracer-dict', f'subset {[R.TR[q] for q in sub]}: after updating logM1/alpha/logM_cut in place, the second call with the reused dict differs from a call with a fresh dict in {t}.{k} ({a.shape} vs {b.shape})')
                    break
    if (_digest(hd, keys0[0]), _digest(pd, keys0[1])) != dig0:
        P('input-modified', 'gen_gal_cat modified (or removed) halo/particle input arrays it was given')
    if os.environ.get('VF_C09_TIMING'):
        print(f'[c09 timing] pid={os.getpid()} {case} {time.time() - _t0:.1f}s at {time.strftime("%H:%M:%S")}', file=sys.stderr, flush=True)
    return dict(problems=probs, evals=max(ex['runs'], ex.get('populations_checked', 0)), nt=nt, extra=ex, sample=sample)


def _describe(kind, j, T, Wc, Wp_by_kc, Ah):
    if kind == 'cent':
        return (f'halo {j} (id {T.hid[j]}, mass {float(T.hmass[j])!r}, multiplicity {float(T.hmultis[j])!r}, deltac/fenv/shear {T.hdeltac[j]}/{T.hfenv[j]}/{T.hshear[j]}, '
                f'stored random {float(T.hrandoms[j])!r}, reference cumulative markers LRG/ELG/QSO {np.cumsum(Wc[j]).tolist()})')
    h = int(T.pinds[j])
    mk = {kc: np.cumsum(W[j]).tolist() for kc, W in Wp_by_kc.items()}
    return (f'particle {j} of halo {h} (id {T.phid[j]}, host mass {float(T.phmass[j])!r}, weight {float(T.pweights[j])!r}, ranks {T.prk[j].tolist()}, '
            f'deltac/fenv/shear {T.pdeltac[j]}/{T.pfenv[j]}/{T.pshear[j]}, stored random {float(T.prandoms[j])!r}, host central outcome allowed [none,LRG,ELG,QSO]={Ah[h].tolist()}, '
            f'reference cumulative markers by host-central code {mk})')

"""C10 - the galaxy catalogue is identical for every thread count.

(a) compiled gen_gal_cat with real threads, Nthread = 1..16, on every (H hosts, P particles) size of the
    alphabet x all 7 tracer subsets: every column, row order and Ncent bitwise equal to Nthread = 1;
(b) interpreted twins of gen_gals -> gen_cent / gen_sats / fast_concatenate (and _searchsorted_parallel) with
    virtual thread counts 1..40: E-POR (Bernstein independence of the per-thread bodies of every parallel
    region => one Mazurkiewicz trace for all interleavings), no read of uninitialised output, every element of
    every kernel-allocated output written, result bitwise equal to the compiled result; for Nthread <= 4 all
    Nthread! body orders are really executed and must agree bit for bit.
"""
import itertools
import numpy as np

PID = 'C10'
LEVEL = 'model_checking'
SIZES = [0, 1, 2, 3, 5, 7, 8, 15, 16, 17, 31, 33]
RULE = ('(H, P) in {0,1,2,3,5,7,8,15,16,17,31,33}^2 (P=0 when H=0) x 7 tracer subsets x RSD on/off: compiled Nthread 1..16 vs 1 bitwise; '
        'twins with virtual Nthread in {1,2,3,4,5,8,16,17,40}: pairwise independence of prange bodies, all outputs written, equality '
        'with compiled; all n! body orders for Nthread<=4; states = prange bodies executed, transitions = tracked accesses; '
        'non-trivial = distinct (H, P, subset, Nthread) with Nthread > 1 and at least one galaxy')
ASSUMPTIONS = ['Bernstein independence in one order implies identical results in every interleaving',
               'virtual numba thread API inside twins; typed Dict objects are the real numba ones',
               'stored random numbers only (NFW satellite path draws fresh numbers and is out of scope)']
CHUNK = 1
WORKERS = 8
TR = ('LRG', 'ELG', 'QSO')
SUBSETS = [s for n in (1, 2, 3) for s in itertools.combinations(range(3), n)]


def cases(tier, seed):
    sizes = SIZES if tier != 'quick' else [0, 1, 2, 3, 5, 8, 16, 17, 33]
    k = 0
    for H in sizes:
        for P in (sizes if H else [0]):
            k += 1
            yield dict(kind='compiled', H=H, P=P, rsd=bool(k % 2), lc=bool(k % 4 == 1))
    tsz = [0, 1, 2, 3, 5, 8, 17] if tier == 'quick' else [0, 1, 2, 3, 5, 7, 8, 16, 17, 33]
    for H in tsz:
        for P in ([0, 1, 3, 8] if tier == 'quick' else [0, 1, 2, 3, 5, 8, 17]):
            if H == 0 and P:
                continue
            yield dict(kind='twin', H=H, P=P, rsd=bool((H + P) % 2), lc=bool((H + P) % 4 == 1))
    for n in ([0, 1, 5] if tier == 'quick' else [0, 1, 2, 5, 9]):
        yield dict(kind='searchsorted', nh=n)
    # thread-block boundaries depend only on (table length, Nthread): sweep every length densely
    top = 160 if tier == 'quick' else 1024
    for lo in range(0, top, 16):
        yield dict(kind='blocks', lo=lo, hi=min(lo + 16, top))
    # a table longer than 2^16 (index widths) - compiled only
    yield dict(kind='compiled', H=70001, P=70001, rsd=True, lc=False, big=True)


def tracers(sub):
    from vf import c09_ref as R
    ps = R.pset('ab+conf+ranks+vb')
    return {R.TR[k]: dict(ps['tracers'][R.TR[k]], ic=0.9) for k in sub}


def table(H, P):
    """deterministic small tables; randoms arranged so that thread blocks hold 0, 1 and several galaxies"""
    i = np.arange(H)
    hmass = np.array([1e13, 1e14, 10 ** 12.5, 1e15, 1e12])[(i // 2) % 5]     # neighbouring hosts share a mass but not their secondary properties
    hrand = np.array([0.001, 0.3, 0.02, 0.9, 0.0005, 0.5, 0.7, 0.1])[(i * 3) % 8] * np.where(i % 7 == 3, 0.01, 1.0)
    hd = dict(hpos=np.stack([(i * 3.0) % 170 - 85, (i * 1.5 + 7) % 160 - 80, 50.0 - (i * 2.5) % 140], axis=1).astype(np.float64).reshape(H, 3),
              hvel=np.stack([100.0 + i, -50.0 + 2 * i, 300.0 - 7 * i], axis=1).astype(np.float64).reshape(H, 3),
              hmass=hmass.astype(np.float64), hid=(i * 10 + 5).astype(np.int64), hmultis=np.where(i % 4 == 1, 0.5, 1.0),
              hrandoms=hrand.astype(np.float64), hveldev=np.stack([i * 0.5, -i * 0.25, 3.0 + i], axis=1).astype(np.float64).reshape(H, 3),
              hsigma3d=np.full(H, 300.0), hc=np.full(H, 5.0), hrvir=np.full(H, 1.0),
              hdeltac=((i % 3) - 1) * 0.3, hfenv=((i % 5) - 2) * 0.2, hshear=((i % 4) - 1.5) * 0.2)
    j = np.arange(P)
    pinds = np.sort((j * 7) % H) if H else np.zeros(0, dtype=np.int64)
    pinds = pinds.astype(np.int64)
    prand = np.array([0.0002, 0.4, 0.01, 0.95, 0.05, 0.0001])[(j * 5) % 6]
    pd = dict(ppos=(hd['hpos'][pinds] + np.stack([0.1 * (j % 40), -0.2 * (j % 30), 0.05 * (j % 50)], axis=1)).reshape(P, 3),
              pvel=(hd['hvel'][pinds] + np.stack([10.0 + j, -j, 2.0 * j], axis=1)).reshape(P, 3),
              phvel=hd['hvel'][pinds].reshape(P, 3), phmass=hd['hmass'][pinds], phid=hd['hid'][pinds],
              pweights=np.where(j % 3 == 0, 1.0, 0.4), prandoms=prand.astype(np.float64), pinds=pinds,
              pranks=((j % 3) - 1).astype(np.float64), pranksv=((j % 2) * 2 - 1).astype(np.float64),
              pranksp=((j % 4) - 1.5), pranksr=((j % 5) - 2) * 0.5, pranksc=np.full(P, 0.5),
              pdeltac=hd['hdeltac'][pinds], pfenv=hd['hfenv'][pinds], pshear=hd['hshear'][pinds])
    return hd, pd


PARAMS = dict(z=0.5, h=0.6736, Lbox=200.0, Mpart=2.109e9, velz2kms=87.5, origin=None, chunk=-1, numslabs=1)
PARAMS_LC = dict(PARAMS, origin=np.array([-310.0, -305.0, -320.0]))     # light-cone observer: radial RSD


def params_for(case):
    return PARAMS_LC if case.get('lc') else PARAMS


def flat(out):
    """canonical, comparable form of a gen_gal_cat result"""
    res = {}
    for t, d in out.items():
        for k, v in d.items():
            res[f'{t}.{k}'] = np.asarray(v).copy() if isinstance(v, np.ndarray) or hasattr(v, '__len__') else v
    return res


def same(a, b):
    if a.keys() != b.keys():
        return f'keys {sorted(a)} vs {sorted(b)}'
    for k in a:
        x, y = a[k], b[k]
        if isinstance(x, np.ndarray) or isinstance(y, np.ndarray):
            x, y = np.asarray(x), np.asarray(y)
            if x.shape != y.shape or x.dtype != y.dtype or x.tobytes() != y.tobytes():
                return f'{k}: {x.tolist()[:6]} vs {y.tolist()[:6]} (shapes {x.shape} {y.shape})'
        elif x != y:
            return f'{k}: {x} vs {y}'
    return None


def close(a, b, ulps=4):
    """twin vs compiled: identical structure, integers exact, floats within a few ulp (fastmath / FMA contraction)"""
    if a.keys() != b.keys():
        return f'keys {sorted(a)} vs {sorted(b)}'
    for k in a:
        x, y = np.asarray(a[k]), np.asarray(b[k])
        if x.shape != y.shape or x.dtype != y.dtype:
            return f'{k}: shapes/dtypes {x.shape}/{x.dtype} vs {y.shape}/{y.dtype}'
        if x.dtype.kind == 'f':
            # relative to the column's scale: RSD / velocity-bias sums cancel, and fastmath may fuse a*b+c differently
            scale = max(float(np.abs(x).max()) if x.size else 0.0, 1.0)
            tol = ulps * np.finfo(x.dtype).eps * np.maximum(np.maximum(np.abs(x), np.abs(y)), 16 * scale)
            if not (np.abs(x - y) <= tol).all():
                return f'{k}: {x.tolist()[:6]} vs {y.tolist()[:6]}'
        elif x.tobytes() != y.tobytes():
            return f'{k}: {x.tolist()[:6]} vs {y.tolist()[:6]}'
    return None


def ngal(f):
    return sum(len(v) for k, v in f.items() if k.endswith('.x'))


def run_compiled(case):
    from abacusnbody.hod.GRAND_HOD import gen_gal_cat
    H, P, rsd = case['H'], case['P'], case['rsd']
    probs, nt = [], []
    n = 0
    for sub in (SUBSETS if not case.get('big') else [(0, 1, 2)]):
        tr = tracers(sub)
        ref = None
        for nthread in (range(1, 17) if not case.get('big') else (1, 2, 7, 16)):
            hd, pd = table(H, P)
            try:
                out = gen_gal_cat(hd, pd, tr, params_for(case), Nthread=nthread, enable_ranks=True, rsd=rsd, nfw=False, write_to_disk=False, verbose=False)
            except Exception as e:
                probs.append(dict(sig='compiled:raises:' + type(e).__name__, msg=f'H={H} P={P} subset={sub} Nthread={nthread}: {e}'))
                break
            n += 1
            f = flat(out)
            if ref is None:
                ref = f
            else:
                d = same(ref, f)
                if d:
                    probs.append(dict(sig='compiled:differs-from-1-thread', msg=f'H={H} P={P} subset={[TR[k] for k in sub]} rsd={rsd} Nthread={nthread}: {d}'))
                    break
            if nthread > 1 and ngal(f) > 0:
                nt.append((H, P, sub, nthread))
    return dict(problems=probs, evals=n, nt=nt, states=1, transitions=1, traces=n, extra=dict(compiled_runs=n),
                sample=dict(H=H, P=P, rsd=rsd, subsets=len(SUBSETS), galaxies_nthread1=ngal(ref) if ref else 0) if (H, P) == (5, 8) else None)


_T = None


def env():
    global _T
    if _T is None:
        from vf import twin
        from abacusnbody.hod import GRAND_HOD as G
        rt = twin.Runtime()
        tw = twin.Twins(rt)
        gg = tw.twin(G.gen_gals)
        ggc = tw.twin(G.gen_gal_cat)
        ggc.__globals__['gen_gals'] = gg
        _T = dict(rt=rt, tw=tw, ggc=ggc, G=G)
    return _T


def run_twin(case):
    from abacusnbody.hod.GRAND_HOD import gen_gal_cat
    T = env()
    rt = T['rt']
    H, P, rsd = case['H'], case['P'], case['rsd']
    probs, nt = [], []
    seen = set()

    def add(sig, msg):
        if sig not in seen:
            seen.add(sig)
            probs.append(dict(sig=sig, msg=msg))
    bodies = accesses = pairs = ntw = ncomp = orders = 0
    for si, sub in enumerate(SUBSETS):
        tr = tracers(sub)
        hd, pd = table(H, P)
        cref = flat(gen_gal_cat(hd, pd, tr, params_for(case), Nthread=1, enable_ranks=True, rsd=rsd, nfw=False, write_to_disk=False, verbose=False))
        ncomp += 1
        for nthread in (1, 2, 3, 4, 5, 8, 16, 17, 40):
            if (nthread + si) % 2 and nthread > 4:
                continue          # thread counts above 4 alternate between tracer subsets
            perms = [None]
            if 1 < nthread <= 4 and si in (0, 6):
                perms = [list(p) for p in itertools.permutations(range(nthread))]
            first = None
            for order in perms:
                hd, pd = table(H, P)
                rt.reset(nthreads=nthread, max_threads=64, order=order)
                tag = f'H={H} P={P} subset={[TR[k] for k in sub]} rsd={rsd} lightcone={bool(case.get("lc"))} Nthread={nthread} order={order}'
                try:
                    out = T['ggc'](hd, pd, tr, params_for(case), Nthread=nthread, enable_ranks=True, rsd=rsd, nfw=False, write_to_disk=False, verbose=False)
                except Exception as e:
                    import traceback
                    from vf import core
                    st = core.stale_reason(e)
                    if st:
                        raise core.Stale(st)
                    add('twin:raises:' + type(e).__name__, f'{tag}: ' + ''.join(traceback.format_exception(e))[-800:])
                    break
                ntw += 1
                orders += order is not None
                accesses += rt.naccess
                f = flat(out)
                d = close(cref, f)
                if d:
                    add('twin:differs-from-compiled-1-thread', f'{tag}: {d}')
                if first is None:
                    first = f
                else:
                    d = same(first, f)
                    if d:
                        add('twin:body-order-changes-result', f'{tag}: {d}')
                if rt.uninit_reads:
                    add('por:uninitialised-read', f'{tag}: read before write of {rt.uninit_reads[0]}')
                for reg in rt.regions:
                    bodies += reg.n
                    pairs += reg.pairs_checked
                    for c in reg.conflicts:
                        add('por:conflict:' + reg.label.split(':')[0], f'{tag}: region {reg.label}: bodies {c[3]} both access {c[0]} element {c[2]} ({c[1]})')
                outs = [np.asarray(v) for v in f.values() if isinstance(v, np.ndarray) and v.size]
                for root in rt.roots:
                    if root.kind == 'empty' and root.written is not None and not root.written.all() and root.size \
                            and any(np.shares_memory(o, root.arr) for o in outs):       # scratch arrays may have unused padding
                        add('por:output-element-never-written:' + root.label.split(':')[0],
                            f'{tag}: {int((~root.written).sum())} of {root.size} elements of the array allocated at {root.label} were never written')
                if nthread > 1 and ngal(f) > 0:
                    nt.append((H, P, sub, nthread))
    return dict(problems=probs, evals=ntw + ncomp, nt=nt, states=max(bodies, 1), transitions=max(accesses, 1), traces=ntw,
                extra=dict(twin_runs=ntw, compiled_runs=ncomp, body_pairs_checked=pairs, permuted_order_runs=orders))


def run_searchsorted(case):
    from abacusnbody.hod import abacus_hod as AH
    from vf import twin
    nh = case['nh']
    probs = []
    hid = (np.arange(nh, dtype=np.int64) * 10 + 5)
    nrun = 0
    for q in ([], [5], list(hid[::-1]), list(hid) + list(hid[:2]), [0, 5, 6, 10 ** 9]):
        b = np.array(q, dtype=np.int64)
        exp = np.searchsorted(hid, b)
        ref = AH._searchsorted_parallel(hid, b)
        if not np.array_equal(ref, exp):
            probs.append(dict(sig='searchsorted:values', msg=f'hid={hid.tolist()} q={q}: {ref.tolist()} vs {exp.tolist()}'))
        rt = twin.Runtime(nthreads=4)
        tw = twin.Twins(rt)
        out = tw.twin(AH._searchsorted_parallel)(rt.track(hid.copy(), 'a'), rt.track(b.copy(), 'b'))
        nrun += 1
        if not np.array_equal(np.asarray(out), exp):
            probs.append(dict(sig='searchsorted:twin-values', msg=f'hid={hid.tolist()} q={q}'))
        for reg in rt.regions:
            for c in reg.conflicts:
                probs.append(dict(sig='por:conflict:_searchsorted_parallel', msg=str(c)))
        for root in rt.roots:
            if root.kind == 'empty' and root.size and not root.written.all():
                probs.append(dict(sig='por:output-element-never-written:_searchsorted_parallel', msg=root.label))
    return dict(problems=probs, evals=nrun, nt=[('searchsorted', nh)], states=max(nrun, 1), transitions=1, traces=nrun, extra=dict(searchsorted_runs=nrun))


def run_blocks(case):
    """every table length in [lo, hi) x Nthread 1..16, all hosts and particles selected (randoms 0): the per-thread
    block boundaries must tile the table for every (length, Nthread) - compared bitwise with Nthread = 1"""
    from abacusnbody.hod.GRAND_HOD import gen_gal_cat
    probs, nt = [], []
    n = 0
    tr = tracers((0,))
    for H in range(case['lo'], case['hi']):
        ref = None
        for nthread in range(1, 17):
            hd, pd = table(H, H)
            hd['hrandoms'][:] = 0.0
            hd['hmultis'][:] = 1.0
            hd['hmass'][:] = 1e15
            pd['prandoms'][:] = 0.0
            pd['pweights'][:] = 1.0
            pd['phmass'][:] = 1e15
            out = gen_gal_cat(hd, pd, tr, PARAMS, Nthread=nthread, enable_ranks=False, rsd=False, nfw=False, write_to_disk=False, verbose=False)
            n += 1
            f = flat(out)
            if ref is None:
                ref = f
                if H and (f.get('LRG.Ncent') != H):
                    probs.append(dict(sig='blocks:not-all-hosts-selected', msg=f'harness: H={H} gave Ncent={f.get("LRG.Ncent")}'))
            else:
                d = same(ref, f)
                if d:
                    probs.append(dict(sig='blocks:differs-from-1-thread', msg=f'table length {H}, Nthread={nthread}: {d}'))
                    break
            if nthread > 1 and H:
                nt.append(('blocks', H, nthread))
    return dict(problems=probs[:3], evals=n, nt=nt, states=1, transitions=1, traces=n, extra=dict(block_sweep_runs=n))


def run(case):
    return {'blocks': run_blocks, 'compiled': run_compiled, 'twin': run_twin, 'searchsorted': run_searchsorted}[case['kind']](case)

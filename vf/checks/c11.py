"""C11 - compiled kernels never access memory outside their arrays.

Kernel x boundary-input alphabet, each case executed two ways:
  twin : the kernel's own source interpreted by CPython on numpy arrays (numpy raises IndexError exactly when an index is
         outside [-n, n), which is numba's definition of out of bounds; negative indices wrap in both) - parallel kernels
         through the prange-lowering twin engine;
  bchk : the compiled kernel in a NUMBA_BOUNDSCHECK=1 process (IndexError, or SystemError inside parallel regions).
Inputs are generated only inside the documented preconditions of each routine (stated per driver).
"""
import itertools
import numpy as np

PID = 'C11'
LEVEL = 'exploration'
RULE = ('per kernel a finite boundary alphabet (empty / single element / zero-particle halos / one-cell-thick grid / positions on '
        'domain boundaries / wavenumbers beyond the last edge / interpolation abscissae within 1 ulp of every node), full product per '
        'kernel, each case run interpreted (IndexError = out of bounds) and compiled with NUMBA_BOUNDSCHECK=1; non-trivial = distinct '
        '(kernel, input) cases containing an empty array, a boundary coordinate or an out-of-range wavenumber')
ASSUMPTIONS = ['numpy index checking == numba bounds semantics (negative indices wrap)', 'NUMBA_BOUNDSCHECK=1 build faithful to production apart from the checks',
               'preconditions taken from docstrings: positions in [0, Box] after wrapping, increasing edges with >= 2 entries, mu edges ending at 1, equidistant increasing interpolation nodes']
ENVS = {'bchk': {'NUMBA_BOUNDSCHECK': '1'}}
CHUNK = 40
WORKERS = 8

MODES = ('twin', 'bchk')


# ------------------------------------------------------------------ case enumeration per kernel
def k_cases(tier):
    out = []
    # cumsum (subset of C19's space; C19 decides the values)
    for n in (0, 1, 2, 3):
        for ini, fin in itertools.product((False, True), repeat=2):
            if n - 1 + ini + fin >= 0:
                out.append(dict(k='cumsum', n=n, ini=ini, fin=fin))
    for n in (0, 1, 2):
        for sel in ((1, 0), (0, 1), (1, 1)):
            out.append(dict(k='rvint', n=n, sel=sel))
        for bits in range(1, 32):
            out.append(dict(k='pids', n=n, bits=bits))
    halosets = [[], [0], [0, 0], [2], [0, 2, 0], [1, 0, 3]]
    for hs in halosets:
        for cleaned in (False, True):
            for sel in range(1, 8):
                out.append(dict(k='rvsub', halos=hs, cleaned=cleaned, sel=sel))
            for sel in (1, 2, 4, 8, 16, 32, 63, 33, 12):
                out.append(dict(k='pidsub', halos=hs, cleaned=cleaned, sel=sel))
    for stream in ('', 'H', 'P', 'HP', 'HPP', 'PH', 'HH', 'HPHP'):
        for sel in ((1, 1), (1, 0), (0, 1)):
            for dt in ('f4', 'f8'):
                out.append(dict(k='pack9', stream=stream, sel=sel, dt=dt))
    out.append(dict(k='expand', rec='H'))
    out.append(dict(k='expand', rec='P'))
    # mass assignment
    coords = ['0', 'eps', 'half-', 'half', 'half+', 'mid', 'box-', 'box']
    for shape in ((2, 2, 2), (3, 4, 5), (1, 1, 1), (4, 4, 1), (5, 1, 3), (1, 6, 2)):
        for cx in coords:
            for dt in ('f4', 'f8'):
                for wts in (False, True):
                    out.append(dict(k='tsc', shape=shape, c=cx, dt=dt, wts=wts))
                    out.append(dict(k='cic', shape=shape, c=cx, dt=dt, wts=wts))
    for n in (0, 1, 3):
        for nthread in (1, 4):
            for shape in ((6, 6, 6), (13, 3, 3), (4, 4, 1)):
                out.append(dict(k='tscpar', n=n, nthread=nthread, shape=shape))
    # _tsc_parallel directly with every small stripe count (odd counts are reachable through tsc_parallel(nthread=1, npartition=odd))
    for npart in (1, 2, 3, 4, 5, 6, 7):
        for n in (0, 1, 5):
            out.append(dict(k='tscstripes', np=npart, n=n))
    for npart in (2, 3, 5):
        out.append(dict(k='tscpar', n=3, nthread=1, shape=(9, 3, 3), npartition=npart))
    # NFW helper: fewer points than threads, no points at all
    for npts in (0, 1, 3, 16, 20):
        for nthread in (1, 4, 16):
            out.append(dict(k='sphere', npts=npts, nthread=nthread))
    for n in (0, 1, 2):
        for nthread in (1, 2, 5):
            for npart in (1, 2, 4):
                for val in ('0', 'box', 'mid'):
                    for wts in (False, True):
                        out.append(dict(k='partition', n=n, nthread=nthread, np=npart, val=val, wts=wts, sort=(n + nthread) % 2 == 0))
    # mode binning
    for n1d in ((2, 3, 4, 5, 6) if tier == 'quick' else (1, 2, 3, 4, 5, 6, 7, 8)):
        for kfam in ('full', 'below-nyq', 'tiny', 'above0', 'beyond'):
            for mu in ((0.0, 1.0), (0.0, 0.5, 1.0), (0.0, 0.2, 0.4, 0.6, 0.8, 1.0)):
                for poles in ((), (0,), (0, 2, 4)):
                    out.append(dict(k='kmu', n1d=n1d, kfam=kfam, mu=mu, poles=poles, nthread=1 + (n1d + len(mu)) % 3))
            for npi in (1, 3):
                for pimax in ('half-nyq', 'nyq', '2nyq', 'tiny'):
                    out.append(dict(k='kppi', n1d=n1d, kfam=kfam, npi=npi, pimax=pimax, nthread=1 + n1d % 3))
    # interpolation
    for nodes in ((2, 3, 4, 5, 7, 10, 17, 40) if tier == 'quick' else range(2, 41)):
        for x0, dx in ((0.0, 1.0), (0.1, 0.1), (0.05, 0.0317), (1.0, 1e-3)):
            for dt in ('f4', 'f8'):
                out.append(dict(k='interp', nodes=nodes, x0=x0, dx=dx, dt=dt))
    for n1d in (2, 3, 4, 5):
        for fam in ('cover', 'short', 'high'):
            out.append(dict(k='expandpoles', n1d=n1d, fam=fam))
    for lists in ([[]], [[], []], [[0], []], [[], [1, 0]], [[2], [0, 1], []]):
        out.append(dict(k='msum', lists=lists))
    for na, nb in ((0, 0), (0, 3), (3, 0), (1, 1), (2, 5), (5, 2), (7, 7)):
        for nthread in (1, 2, 3, 8):
            out.append(dict(k='concat', na=na, nb=nb, nthread=nthread))
    for nh in (0, 1, 3):
        for q in ('below', 'above', 'inside', 'empty'):
            out.append(dict(k='searchsorted', nh=nh, q=q))
    # HOD passes (gen_cent, gen_sats, fast_concatenate through gen_gals): empty tables, fewer hosts than threads
    for H, P in ((0, 0), (1, 0), (1, 2), (3, 0), (3, 5), (8, 3)):
        for nthread in (1, 3, 8):
            for sub in ((0,), (1,), (0, 1, 2)):
                out.append(dict(k='hod', H=H, P=P, nthread=nthread, sub=sub, rsd=bool((H + nthread) % 2)))
    return out


def cases(tier, seed):
    for c in k_cases(tier):
        for mode in MODES:
            d = dict(c, mode=mode)
            if mode == 'bchk':
                d['env'] = 'bchk'
            yield d


# ------------------------------------------------------------------ execution helpers
_TW = None


def fn(disp, mode):
    """the callable for this mode: compiled dispatcher (bchk process) or interpreted twin"""
    global _TW
    if mode == 'bchk':
        return disp, None
    from vf import twin
    if _TW is None:
        rt = twin.Runtime()
        _TW = (rt, twin.Twins(rt))
    rt, tw = _TW
    rt.reset(nthreads=4, max_threads=64)
    return tw.twin(disp), rt


def guarded(call, sig, what):
    try:
        call()
    except (IndexError, SystemError) as e:
        return [dict(sig=sig, msg=f'{what}: out-of-bounds access: {type(e).__name__}: {e}')]
    except (AssertionError, ValueError):
        return []       # the routine refused the input (documented preconditions may be enforced more strictly): no access happened
    except Exception as e:
        from vf import core
        st = core.stale_reason(e)
        if st:
            raise core.Stale(st)
        raise
    return []


def coordval(c, g, box, dtype):
    h = box / g
    eps = np.finfo(dtype).eps
    v = {'0': 0.0, 'eps': box * eps, 'half-': 0.5 * h * (1 - 2 * eps), 'half': 0.5 * h, 'half+': 0.5 * h * (1 + 2 * eps),
         'mid': 0.37 * box, 'box-': float(np.nextafter(dtype(box), dtype(0))), 'box': box}[c]
    return dtype(v)


def kedges_for(fam, n1d, L):
    kf = 2 * np.pi / L
    knyq = kf * n1d / 2
    if fam == 'full':
        return np.linspace(0, np.sqrt(3) * knyq + kf, 5)
    if fam == 'below-nyq':
        return np.linspace(0, 0.5 * knyq, 3)
    if fam == 'tiny':
        return np.array([0.0, 0.4 * kf])
    if fam == 'above0':
        return np.linspace(0.6 * kf, knyq, 4)
    if fam == 'beyond':
        return np.array([0.0, kf, 1.5 * kf])
    raise ValueError(fam)


# ------------------------------------------------------------------ drivers
def run(case):
    k, mode = case['k'], case['mode']
    what = {x: case[x] for x in case if x not in ('mode', 'env')}
    sig = f'oob:{k}:{mode}'
    probs = []
    nt_flag = False
    if k == 'cumsum':
        from abacusnbody.util import cumsum
        f, _ = fn(cumsum, mode)
        n = case['n']
        a = np.arange(1, n + 1, dtype=np.int64)
        out = np.zeros(n - 1 + case['ini'] + case['fin'], dtype=np.int64)
        probs = guarded(lambda: f(a, out, initial=case['ini'], final=case['fin']), sig, what)
        nt_flag = n == 0
    elif k == 'rvint':
        from abacusnbody.data import bitpacked
        f, _ = fn(bitpacked._unpack_rvint, mode)
        n = case['n']
        d = (np.arange(3 * n, dtype=np.int32) * 100003).reshape(n, 3)
        po = np.empty((n, 3), np.float32) if case['sel'][0] else None
        vo = np.empty((n, 3), np.float32) if case['sel'][1] else None
        probs = guarded(lambda: f(d, 32.0, po, vo), sig, what)
        nt_flag = n == 0
    elif k == 'pids':
        from abacusnbody.data import bitpacked
        f, _ = fn(bitpacked._unpack_pids, mode)
        n = case['n']
        p = (np.arange(n, dtype=np.uint64) * np.uint64(0x9E3779B97F4A7C15))
        names = ['pid', 'lagr_pos', 'tagged', 'density', 'lagr_idx']
        shapes = dict(pid=((n,), np.int64), lagr_pos=((n, 3), np.float32), tagged=((n,), np.uint8), density=((n,), np.float32), lagr_idx=((n, 3), np.int16))
        kw = {nm: np.empty(*shapes[nm]) for i, nm in enumerate(names) if case['bits'] >> i & 1}
        probs = guarded(lambda: f(p, 32.0, 64, **kw), sig, what)
        nt_flag = n == 0
    elif k in ('rvsub', 'pidsub'):
        from abacusnbody.data.compaso_halo_catalog import CompaSOHaloCatalog as C
        hs = case['halos']
        H = len(hs)
        lens = np.array(hs, dtype=np.uint32)
        clens = np.array([(x + 1) % 3 for x in hs], dtype=np.uint32) if case['cleaned'] else np.zeros(H, np.uint32)
        roff = np.zeros(H, np.uint64)
        o = 1
        for i in range(H):
            roff[i] = o
            o += int(lens[i]) + 1          # unindexed gap records between halos
        nraw = o + 1
        coff = np.zeros(H, np.int64)
        o = 0
        for i in range(H):
            coff[i] = o
            o += int(clens[i])
        ncl = o
        woff = np.zeros(H + 1, np.uint64)
        woff[1:] = np.cumsum(lens.astype(np.int64) + clens.astype(np.int64))
        N = int(woff[-1])
        if k == 'rvsub':
            f, _ = fn(C._unpack_rv_subsamples, mode)
            slab = (np.arange(3 * nraw, dtype=np.int32) * 7919).reshape(nraw, 3)
            cslab = (np.arange(3 * ncl, dtype=np.int32) * 104729).reshape(ncl, 3)
            s = case['sel']
            pos = np.empty((N, 3), np.float32) if s & 1 else None
            vel = np.empty((N, 3), np.float32) if s & 2 else None
            rv = np.empty((N, 3), np.int32) if s & 4 else None
            kw = dict(clean_slab_rvint=cslab, clean_slab_read_offsets=coff, clean_slab_read_lens=clens) if case['cleaned'] else {}
            probs = guarded(lambda: f(pos, vel, rv, slab, roff, lens, woff, 32.0, **kw), sig, what)
        else:
            f, _ = fn(C._unpack_pid_subsamples, mode)
            slab = np.arange(nraw, dtype=np.uint64) * np.uint64(0x9E3779B97F4A7C15)
            cslab = np.arange(ncl, dtype=np.uint64) * np.uint64(0xD1B54A32D192ED03)
            s = case['sel']
            names = ['pid', 'lagr_pos', 'tagged', 'density', 'lagr_idx', 'packedpid']
            shapes = dict(pid=((N,), np.int64), lagr_pos=((N, 3), np.float32), tagged=((N,), np.uint8), density=((N,), np.float32),
                          lagr_idx=((N, 3), np.int16), packedpid=((N,), np.uint64))
            arrs = {nm: (np.empty(*shapes[nm]) if s >> i & 1 else None) for i, nm in enumerate(names)}
            pid = arrs.pop('pid')
            kw = dict(clean_slab_packedpid=cslab, clean_slab_read_offsets=coff, clean_slab_read_lens=clens) if case['cleaned'] else {}
            probs = guarded(lambda: f(pid, slab, roff, lens, woff, 32.0, 64, **kw, **arrs), sig, what)
        nt_flag = H == 0 or 0 in hs
    elif k == 'pack9':
        from abacusnbody.data import pack9
        f, _ = fn(pack9._unpack_pack9, mode)
        recs = {'H': [0xFF, 0x08, 0x05, 0x80, 0x98, 0x03, 0x80, 0x28, 0x04], 'P': [0x12, 0x34, 0x56, 0x78, 0x9A, 0xBC, 0xDE, 0xF0, 0x11]}
        data = np.array([recs[c] for c in case['stream']], dtype=np.uint8).reshape(-1, 9)
        dt = np.float32 if case['dt'] == 'f4' else np.float64
        n = len(data)
        po = np.empty((n, 3), dt) if case['sel'][0] else None
        vo = np.empty((n, 3), dt) if case['sel'][1] else None
        probs = guarded(lambda: f(data, 32.0, 3200.0, po, vo, dt), sig, what)
        nt_flag = n <= 1
    elif k == 'expand':
        from abacusnbody.data import pack9
        f, _ = fn(pack9._expand_to_short, mode)
        c = np.array([0xFF] * 9 if case['rec'] == 'H' else [0x12, 0x34, 0x56, 0x78, 0x9A, 0xBC, 0xDE, 0xF0, 0x11], dtype=np.uint8)
        s = np.zeros(6, np.int16)
        probs = guarded(lambda: f(c, s), sig, what)
    elif k in ('tsc', 'cic'):
        from abacusnbody.analysis import tsc, cic
        dt = np.float32 if case['dt'] == 'f4' else np.float64
        shape = tuple(case['shape'])
        box = 7.25
        pos = np.array([[coordval(case['c'], shape[0], box, dt), coordval(case['c'], shape[1], box, dt), coordval(case['c'], shape[2], box, dt)],
                        [coordval('box', shape[0], box, dt), coordval('0', shape[1], box, dt), coordval(case['c'], shape[2], box, dt)],
                        [coordval('0', shape[0], box, dt), coordval(case['c'], shape[1], box, dt), coordval('box', shape[2], box, dt)]], dtype=dt)
        w = np.array([1.0, 2.5, 0.0], dtype=dt) if case['wts'] else None
        dens = np.zeros(shape, dtype=dt)
        if k == 'tsc':
            f, _ = fn(tsc._tsc_scatter, mode)
            probs = guarded(lambda: f(pos, dens, box, weights=w, offset=0.0), sig + (':thin-grid' if shape[2] == 1 else ''), what)
            if not probs:
                probs = guarded(lambda: f(pos, dens, box, weights=w, offset=0.5 * box / shape[0]), sig + (':thin-grid' if shape[2] == 1 else ''), what)
        else:
            f, _ = fn(cic.cic_serial, mode)
            probs = guarded(lambda: f(pos, dens, box, weights=w), sig, what)
        nt_flag = case['c'] in ('0', 'box', 'box-', 'half') or 1 in shape
    elif k == 'tscpar':
        from abacusnbody.analysis import tsc
        import warnings
        shape = tuple(case['shape'])
        n = case['n']
        box = 7.25
        pos = np.array([[0.0, box, 0.5 * box], [box, 0.0, box], [np.nextafter(np.float32(box), np.float32(0)), 1.0, 0.0]], dtype=np.float32)[:n].reshape(n, 3)
        dens = np.zeros(shape, dtype=np.float32)
        f, _ = fn(tsc.tsc_parallel, mode) if mode == 'twin' else (tsc.tsc_parallel, None)
        with warnings.catch_warnings():
            warnings.simplefilter('ignore')
            probs = guarded(lambda: f(pos.copy(), dens, box, nthread=case['nthread'], wrap=True, npartition=case.get('npartition')), sig + (':thin-grid' if shape[2] == 1 else ''), what)
        nt_flag = True
    elif k == 'tscstripes':
        from abacusnbody.analysis import tsc
        f, _ = fn(tsc._tsc_parallel, mode)
        npart, n = case['np'], case['n']
        box = 8.0
        pos = np.stack([(np.arange(n) * 1.7) % box, np.full(n, 3.0), np.full(n, 5.0)], axis=1).astype(np.float32).reshape(n, 3)
        pos = pos[np.argsort(pos[:, 0], kind='stable')]
        keys = np.minimum((pos[:, 0] * (npart / box)).astype(np.int64), npart - 1)
        starts = np.searchsorted(keys, np.arange(npart + 1)).astype(np.int64)
        dens = np.zeros((24, 3, 3), dtype=np.float32)
        probs = guarded(lambda: f(pos, starts, dens, box, None, 0.0), sig + (':odd' if npart % 2 else ''), what)
        nt_flag = True
    elif k == 'sphere':
        from abacusnbody.hod import GRAND_HOD as G
        if mode == 'bchk':
            probs = guarded(lambda: G.getPointsOnSphere(case['npts'], case['nthread']), sig, what)
        else:
            probs = []      # the kernel iterates range() over floats, which only numba accepts: compiled modes only
        nt_flag = case['npts'] < case['nthread']
    elif k == 'partition':
        from abacusnbody.analysis import tsc
        f, _ = fn(tsc.partition_parallel, mode)
        n = case['n']
        box = 8.0
        v = {'0': 0.0, 'box': box, 'mid': 3.7}[case['val']]
        pos = np.full((n, 3), v, dtype=np.float32)
        w = np.ones(n, np.float32) if case['wts'] else None
        probs = guarded(lambda: f(pos, case['np'], box, weights=w, coord=0, nthread=case['nthread'], sort=case['sort']), sig, what)
        nt_flag = n == 0 or case['nthread'] > n or case['val'] == 'box'
    elif k in ('kmu', 'kppi'):
        from abacusnbody.analysis import power_spectrum as ps
        import numba
        n1d = case['n1d']
        # an earlier call may have left numba with fewer threads than this call asks for
        if mode == 'bchk':
            numba.set_num_threads(1)
        L = 100.0
        ke = kedges_for(case['kfam'], n1d, L)
        wts = (np.arange(n1d * n1d * (n1d // 2 + 1), dtype=np.float32) * 0.01 + 1).reshape(n1d, n1d, n1d // 2 + 1)
        if k == 'kmu':
            f, rt_ = fn(ps.bin_kmu, mode)
            if rt_ is not None:
                rt_.nthreads = 1
            probs = guarded(lambda: f(n1d, L, ke, np.array(case['mu']), wts, poles=np.array(case['poles'], dtype=np.int64), nthread=case['nthread']), sig, what)
        else:
            kf = 2 * np.pi / L
            pim = {'half-nyq': 0.25 * n1d * kf, 'nyq': 0.5 * n1d * kf, '2nyq': n1d * kf, 'tiny': 0.3 * kf}[case['pimax']]
            f, rt_ = fn(ps.bin_kppi, mode)
            if rt_ is not None:
                rt_.nthreads = 1
            probs = guarded(lambda: f(n1d, L, ke, pim, case['npi'], wts, nthread=case['nthread']), sig + ':pi-edge' , what)
        nt_flag = case['kfam'] in ('below-nyq', 'tiny', 'beyond') or case.get('pimax') in ('half-nyq', 'tiny')
    elif k == 'interp':
        from abacusnbody.analysis import power_spectrum as ps
        f, _ = fn(ps.linear_interp, mode)
        dt = np.float32 if case['dt'] == 'f4' else np.float64
        x = (case['x0'] + case['dx'] * np.arange(case['nodes'])).astype(dt)
        y = np.arange(case['nodes'], dtype=dt) ** 2
        xs = []
        for v in x:
            xs += [v, np.nextafter(v, dt(-1e9)), np.nextafter(v, dt(1e9))]
        xs += [dt(0.5) * (x[-1] + x[-2]), x[0] - dt(1), x[-1] + dt(1)]
        for xd in xs:
            probs += guarded(lambda: f(dt(xd), x, y), sig + ':last-interval', dict(what, xd=float(xd), x_last=float(x[-1])))
            if probs:
                break
        nt_flag = True
    elif k == 'expandpoles':
        from abacusnbody.analysis import power_spectrum as ps
        f, _ = fn(ps.expand_poles_to_3d, mode)
        n1d = case['n1d']
        L = 100.0
        kf = 2 * np.pi / L
        kmax = np.sqrt(3) * kf * (n1d // 2 + 1)
        if case['fam'] == 'cover':
            k_ell = np.linspace(0, kmax, 9)
        elif case['fam'] == 'short':
            k_ell = np.linspace(0.5 * kf, 1.5 * kf, 3)
        else:
            k_ell = np.linspace(kf, kf * np.sqrt(2.0), 2)
        P = np.vstack([np.linspace(1, 2, len(k_ell)), np.linspace(0.5, 0.1, len(k_ell))])
        probs = guarded(lambda: f(k_ell, P, n1d, L, np.array([0, 2], dtype=np.int64)), sig + ':last-interval', what)
        nt_flag = True
    elif k == 'msum':
        from abacusnbody.hod import menv
        f, _ = fn(menv.msum_core, mode)
        lists = case['lists']
        starts = np.zeros(len(lists) + 1, dtype=np.int64)
        starts[1:] = np.cumsum([len(x) for x in lists])
        inds = np.array([i for x in lists for i in x], dtype=np.int64)
        masses = np.array([1.0, 2.0, 4.0])
        out = np.zeros(len(lists))
        probs = guarded(lambda: f(out, masses, inds, starts, 1.0, 2), sig, what)
        nt_flag = any(len(x) == 0 for x in lists)
    elif k == 'concat':
        from abacusnbody.hod import GRAND_HOD as G
        f, _ = fn(G.fast_concatenate, mode)
        a = np.arange(case['na'], dtype=np.float64)
        b = np.arange(case['nb'], dtype=np.float64) + 100
        probs = guarded(lambda: f(a, b, case['nthread']), sig, what)
        nt_flag = case['na'] == 0 or case['nb'] == 0 or case['nthread'] > case['na'] + case['nb']
    elif k == 'searchsorted':
        from abacusnbody.hod import abacus_hod as AH
        f, _ = fn(AH._searchsorted_parallel, mode)
        hid = np.arange(case['nh'], dtype=np.int64) * 10 + 10
        q = {'below': [0, 5], 'above': [1000, 10 ** 12], 'inside': [10, 15, 20, 30], 'empty': []}[case['q']]
        probs = guarded(lambda: f(hid, np.array(q, dtype=np.int64)), sig, what)
        nt_flag = case['nh'] == 0 or case['q'] != 'inside'
    elif k == 'hod':
        from abacusnbody.hod import GRAND_HOD as G
        from vf.checks import c10
        hd, pd = c10.table(case['H'], case['P'])
        tr = c10.tracers(tuple(case['sub']))
        if mode == 'bchk':
            f = G.gen_gal_cat
        else:
            f, rt = fn(G.gen_gal_cat, mode)
            f.__globals__['gen_gals'] = _TW[1].twin(G.gen_gals)
            rt.reset(nthreads=case['nthread'], max_threads=64)
        probs = guarded(lambda: f(hd, pd, tr, c10.PARAMS, Nthread=case['nthread'], enable_ranks=True, rsd=case['rsd'], nfw=False,
                                  write_to_disk=False, verbose=False), sig, what)
        nt_flag = case['H'] == 0 or case['P'] == 0 or case['nthread'] > case['H']
    else:
        raise ValueError(k)
    key = {x: case[x] for x in case if x not in ('env',)}
    return dict(problems=probs, nt=[key] if nt_flag else [], extra={'cases_' + mode: 1, 'kernels': [k]},
                sample=key if (k == 'kppi' and case.get('pimax') == 'tiny' and mode == 'twin' and case['n1d'] == 4 and case['kfam'] == 'full' and case['npi'] == 3) else None)


def crash_sig(case):
    return f"{case.get('k')}:{case.get('mode')}"

"""C12 - HOD staging keeps every per-halo attribute on the same row.

Bounded exhaustive enumeration on the real ``AbacusHOD(...)`` constructor (``__init__`` -> ``staging`` ->
``_searchsorted_parallel``).  A case is one synthetic subsample file set (vf/c12_gen.py):

  slab layout    1..3 slabs x 0..3 halos per slab, 1..5 halos in total                      (60 layouts)
  id order       EVERY permutation of the distinct halo ids over the slab slots (n! orders, sorted order included)
  id universe    small {0,1,..}, slab-style {7, 1e12+3, ..}, huge {2^62+1, ..} (collide if ever cast to float)
  minor factors  particles per halo (5 patterns over 0..2), velocity deviates stored 3-D / 1-D (legacy), id dtype
                 int64/uint64, optional rank columns present/absent, particle order within a slab, redshift type
                 (primary / secondary = no particle files / light cone = lc header, 1 slab): full factorial of 240
                 combinations walked by a stride over consecutive file sets
and on every file set the real constructor is run for all 16 combinations of want_AB x want_shear x want_ranks x
want_expvel (tracer sets rotating over 7 variants that select the plain / ``_MT`` file names), plus every valid
(n_chunks, chunk) split of the slabs.  Both file-name variants (and plain / ``_withranks`` particle files) exist with
different tags, so reading the wrong file is visible.

Oracle (from the property statement and the file format, never from the code under test): every attribute in the files
is tag(id, column), therefore after the constructor
  * hid is exactly the sorted list of the ids of the loaded slabs (strictly increasing, duplicate free),
  * every per-halo array at row r equals tag(hid[r], column)   (hmass = N*Mpart, hc = r98/r25 with r25 a power of two,
    so both are exact; hmass is compared to 2.5e-7 relative because the product may legitimately be formed in float32),
  * every particle row is self-consistent (all columns belong to the particle whose tag is in ppos), the set of particles
    is the multiset stored in the loaded slabs (their order is not pinned by the property), and 0 <= pinds[p] < n with hid[pinds[p]] == phid[p] == the id the
    particle records in its file.
"""
import itertools
import os
import shutil
import tempfile

import numpy as np

PID = 'C12'
LEVEL = 'exploration'
RULE = ('file sets = {1..3 slabs x 0..3 halos/slab, 1..5 halos total} x every permutation of the ids over the slots x id '
        'universe {small, slab-style, >2^62} x a 240-combination factorial of minor factors (particles/halo pattern, 1-D/3-D '
        'velocity deviates, id dtype, optional rank columns, particle order, redshift type) walked by stride; on each file '
        'set the real constructor runs for all 16 want_AB/want_shear/want_ranks/want_expvel combinations (7 tracer sets '
        'rotating) and every valid (n_chunks, chunk); quick = all permutations for n<=4 plus one 5-halo layout (chosen by '
        'seed), one universe per file set (rotating); thorough = all 60 layouts x all n! orders, crossed with all 3 universes for n<=4 (universe rotating over the 1680 five-halo file sets). non-trivial = distinct '
        '(layout, id order, universe, flags, tracer set, redshift type, chunking) with >= 2 halos loaded')
ASSUMPTIONS = [
    'numpy.histogramdd (mass-function tables built by __init__ after staging, not part of the property) is replaced by a '
    'shape-preserving zero-filled double in "light" runs; a subset of runs ("full") executes the constructor unmodified',
    'chunk c of n_chunks covers the contiguous slab block [c*ceil(S/n), min((c+1)*ceil(S/n), S)); only chunks with >= 1 halo',
    'particle order is free: only the multiset of particle rows and the self-consistency of every row are checked',
    'file values are physically valid (deviates and fractions in (0,1), ranks in [-0.5,0.5), coordinates inside the box, '
    'r25 < r98, counts/masses/multiplicities > 0); only arrays named by the property are constrained, extra entries ignored',
    'legacy 1-D velocity-deviate columns mean "use the z deviate for x and y of the same halo" (the code\'s own warning)',
    'light runs execute _searchsorted_parallel on 2 numba threads (numba.set_num_threads), full runs on all 16',
    'halo ids are non-negative and < 2^63; at most 5 halos, 3 slabs, 2 particles per halo',
]
CHUNK = 2
WORKERS = 8

UNIS = ('small', 'slabbed', 'huge')
TRACERS = [   # (tracer_flags, force_mt, uses the _MT files)
    (dict(LRG=True), False, False),
    (dict(LRG=True, ELG=True), False, True),
    (dict(LRG=False, ELG=True, QSO=False), False, True),
    (dict(QSO=True), False, True),
    (dict(LRG=True, ELG=False, QSO=False), True, True),
    (dict(LRG=True, ELG=False, QSO=False), False, False),
    (dict(LRG=True, ELG=True, QSO=True), False, True),
]
ZVAL = {'primary': 0.5, 'secondary': 0.575, 'lightcone': 0.5}
MINOR = 240


def BOUNDS(tier):
    return dict(slabs='1..3', halos_per_slab='0..3', halos_total='1..5' if tier == 'thorough' else '1..4 (+ one 5-halo layout)',
                id_orders='all n! permutations of the ids over the slots', particles_per_halo='0..2',
                flag_combinations=16, tracer_sets=len(TRACERS), n_chunks='1..3 (every chunk holding >= 1 halo)',
                redshift_types=['primary', 'secondary', 'lightcone'], id_universes=list(UNIS))


def layouts():
    out = []
    for S in (1, 2, 3):
        for sizes in itertools.product(range(4), repeat=S):
            if 1 <= sum(sizes) <= 5:
                out.append(sizes)
    out.sort(key=lambda s: (sum(s), len(s), s))
    return out


def minor(j, S):
    d = {}
    d['pat'], j = j % 5, j // 5
    d['vel1d'], j = bool(j % 2), j // 2
    d['idtype'], j = ('i8', 'u8')[j % 2], j // 2
    d['optranks'], j = bool(j % 2), j // 2
    d['prev'], j = bool(j % 2), j // 2
    d['zt'] = (('primary', 'lightcone', 'secondary') if S == 1 else ('primary', 'secondary', 'primary'))[j % 3]
    return d


def cases(tier, seed):
    L = layouts()
    five = [s for s in L if sum(s) == 5]
    keep5 = five[(seed + 9) % len(five)]
    idx = 0
    for sizes in L:
        n = sum(sizes)
        if tier == 'quick' and n == 5 and sizes != keep5:
            continue
        for perm in itertools.permutations(range(1, n + 1)):
            unis = UNIS if (tier == 'thorough' and n <= 4) else (UNIS[(idx + seed) % 3],)
            for uni in unis:
                c = dict(sizes=list(sizes), perm=list(perm), uni=uni, rot=idx)
                c.update(minor((idx * 97 + seed) % MINOR, len(sizes)))
                # one unmodified ("full") constructor run in every 12th file set (2 GB transient each)
                c['full'] = (idx % 12 == 0)
                idx += 1
                yield c


def worker_init():
    import logging
    logging.getLogger('AbacusHOD').setLevel(logging.ERROR)
    import abacusnbody.hod.abacus_hod  # noqa: F401


def _light_histogramdd(sample, bins=10, range=None, density=None, weights=None):
    """Double for numpy.histogramdd: validates the call, returns a lazily allocated zero table of the right shape."""
    sample = np.asarray(sample)
    assert sample.ndim == 2 and len(bins) == sample.shape[1]
    assert weights is None or len(weights) == len(sample)
    edges = [np.asarray(b) for b in bins]
    return np.zeros([len(b) - 1 for b in edges]), edges


def build(case):
    from vf import c12_gen as g
    sizes, perm = case['sizes'], case['perm']
    n = sum(sizes)
    uni = sorted(g.UNIVERSES[case['uni']])[:n]
    ids = [uni[k - 1] for k in perm]
    slabs, pos = [], 0
    for s in sizes:
        slabs.append(ids[pos:pos + s])
        pos += s
    pat = case['pat']
    npart = {}
    for slot, hid in enumerate(ids):
        K = uni.index(hid) + 1
        npart[hid] = [0, 1, 2, K % 3, (2 - slot) % 3][pat]
    return g.FileSet(slabs, npart, case['uni'], vel1d=case['vel1d'], idtype=case['idtype'],
                     optranks=g.OPT_RANKS if case['optranks'] else (), prev=case['prev'])


def plan(case, fs):
    """The constructor runs of one file set: (flag bits, tracer variant, n_chunks, chunk, loaded slabs, full?)."""
    S = len(case['sizes'])
    rot = case['rot']
    runs = []
    for fb in range(16):
        runs.append([fb, (rot + fb) % len(TRACERS), 1, -1, list(range(S))])
    extra = [(1, 0)]
    if case['zt'] != 'lightcone':
        extra += [(2, 0), (2, 1), (3, 0), (3, 1), (3, 2)]
    for k, (nc, c) in enumerate(extra):
        J = -(-S // nc)
        loaded = list(range(c * J, min((c + 1) * J, S)))
        if not loaded or sum(len(fs.slabs[s]) for s in loaded) == 0:
            continue
        runs.append([(rot * 5 + k * 3) % 16, (rot + k) % len(TRACERS), nc, c, loaded])
    for i, r in enumerate(runs):
        r.append(bool(case['full']) and i == rot % len(runs))
    return runs


def close(a, b, rel):
    a = np.asarray(a, dtype=np.float64)
    b = np.asarray(b, dtype=np.float64)
    return np.abs(a - b) <= rel * np.maximum(np.abs(a), np.abs(b))


def run(case):
    import numba
    from vf import c12_gen as g
    from abacusnbody.hod.abacus_hod import AbacusHOD
    fs = build(case)
    zt = case['zt']
    z = ZVAL[zt]
    S = len(case['sizes'])
    has_parts = zt != 'secondary'
    probs, nt = [], []
    ex = dict(runs_light=0, runs_full=0, filesets=1, files_written=0, halo_values_compared=0,
              particle_values_compared=0, runs_unsorted_input=0, runs_sorted_input=0, runs_with_particles=0,
              runs_chunked=0, halo_rows=0, particle_rows=0, runs_particles_reordered=0)
    configs = set()
    root = tempfile.mkdtemp(prefix='vfc12_', dir='/dev/shm')
    sample = None
    try:
        g.write_headers(root, S, z, zt == 'lightcone')
        ex['files_written'] = fs.write(root, z, particles=has_parts) + (1 if zt == 'lightcone' else S)
        sim = dict(sim_name=g.SIM, sim_dir=root + '/sim', subsample_dir=root + '/sub', output_dir=root + '/out', z_mock=z)
        if zt == 'lightcone':
            sim['halo_lc'] = True
        for fb, tv, nc, ck, loaded, full in plan(case, fs):
            AB, SH, RK, EV = bool(fb & 1), bool(fb & 2), bool(fb & 4), bool(fb & 8)
            flags, force_mt, mt = TRACERS[tv]
            hod = dict(tracer_flags=dict(flags), want_rsd=True)
            for t, on in flags.items():
                if on:
                    hod[t + '_params'] = {}
            for name, v in (('want_AB', AB), ('want_shear', SH), ('want_ranks', RK), ('want_expvel', EV)):
                if v or (case['rot'] + fb) % 2:       # a False flag is given explicitly or left to its default
                    hod[name] = v
            simp = dict(sim)
            if force_mt:
                simp['force_mt'] = True
            cfg = dict(AB=AB, shear=SH, ranks=RK, expvel=EV, tracers=flags, force_mt=force_mt, n_chunks=nc, chunk=ck,
                       z=zt, full=full)

            def bad(sig, what):
                probs.append(dict(sig=sig, msg=f'{what}\n  config={cfg}\n  slabs (ids in file order)={fs.slabs} '
                                               f'particles/halo={fs.npart} vel1d={fs.vel1d} idtype={fs.idtype}'))
            real = np.histogramdd
            if not full:
                np.histogramdd = _light_histogramdd
            # light runs use 2 numba threads (16 spinning threads x 8 workers oversubscribe the machine); full runs use all
            numba.set_num_threads(numba.config.NUMBA_NUM_THREADS if full else min(2, numba.config.NUMBA_NUM_THREADS))
            try:
                ball = AbacusHOD(simp, hod, chunk=ck, n_chunks=nc)
            except Exception as e:  # the constructor must accept every file set of the alphabet
                import traceback
                from vf import core
                why = core.stale_reason(e) if hasattr(core, 'stale_reason') else None
                if why:                     # the driver no longer fits the constructor: skip, never a violation
                    raise core.Stale(why)
                ex['runs_full' if full else 'runs_light'] += 1
                bad('exception:' + type(e).__name__, 'constructor raised: ' + ''.join(traceback.format_exception(e))[-1500:])
                continue
            finally:
                np.histogramdd = real
            ex['runs_full' if full else 'runs_light'] += 1
            H, Pd = ball.halo_data, ball.particle_data
            del ball
            ids, HX, rows, PX = fs.expected(loaded, mt, AB, SH, RK, EV, particles=has_parts)
            n = len(ids)
            infile = [i for s in loaded for i in fs.slabs[s]]
            ex['runs_unsorted_input' if infile != ids else 'runs_sorted_input'] += 1
            ex['runs_chunked'] += int(nc > 1)
            ex['halo_rows'] += n
            configs.add(f'{fb}|{tv}|{zt}')
            if n >= 2:
                nt.append(f"{case['sizes']}|{case['perm']}|{case['uni']}|{fb}|{tv}|{zt}|{nc}.{ck}")

            # ---- ids: exactly the loaded ids, strictly increasing -------------------------------------------------------------
            hid = np.asarray(H['hid'])
            if hid.dtype.kind not in 'iu':
                bad('hid:dtype', f'hid has dtype {hid.dtype}')
            hl = [int(x) for x in hid.tolist()]
            if any(a >= b for a, b in zip(hl[:-1], hl[1:])):
                bad('hid:not-increasing', f'hid={hl} is not strictly increasing')
            if sorted(hl) != ids:
                bad('hid:set', f'hid={hl} but the loaded slabs {loaded} hold ids {ids}')
            # ---- every per-halo array describes halo hid[r] at row r ---------------------------------------------------------
            # (only the arrays named by the property are constrained; unknown extra entries of the dictionaries are ignored)
            for name, fexp in HX.items():
                if name not in H:
                    bad(f'missing:{name}', f'halo_data has no {name!r}')
                    continue
                arr = np.asarray(H[name])
                if len(arr) != len(hl):
                    bad(f'len:{name}', f'{name} has {len(arr)} rows, hid has {len(hl)}')
                    continue
                for r, i in enumerate(hl):
                    if i not in fs.K:
                        continue
                    e = np.asarray(fexp(i), dtype=np.float64)
                    o = np.asarray(arr[r], dtype=np.float64)
                    ex['halo_values_compared'] += int(e.size)
                    ok = o.shape == e.shape and bool((close(o, e, 2.5e-7) if name == 'hmass' else (o == e)).all())
                    if not ok:
                        owner = _owner(fs, fexp, o)
                        sig = f'row:{name}' + (':1d-deviates' if name == 'hveldev' and fs.vel1d else '')
                        bad(sig, f'{name}[{r}] = {o.tolist()} but row {r} is halo id {i} whose value is {e.tolist()}'
                                 f'{owner}; hid={hl}; {name}={np.asarray(arr).tolist()}')
                        break
            # ---- particles -----------------------------------------------------------------------------------------------
            npz = len(rows)
            ex['particle_rows'] += npz
            ex['runs_with_particles'] += int(npz > 0)
            for name in list(PX) + ['pinds']:
                if name in Pd and len(Pd[name]) != npz:
                    bad(f'plen:{name}', f'{name} has {len(Pd[name])} rows, the loaded slabs hold {npz} particles')
            ppos = np.asarray(Pd['ppos'], dtype=np.float64)
            pv = (1 if mt else 0) + 2 * int(RK)
            byPK = {3 * (fs.K[r[0]] - 1) + r[1] + 1: r for r in rows}
            keyed = []
            if len(ppos) == npz and npz:
                for p in range(npz):
                    keyed.append(byPK.get(g.pk_of_ppos(ppos[p, 0], pv)))
                if None in keyed:
                    bad('row:ppos', f'ppos={ppos.tolist()} holds values that belong to no particle of the loaded '
                                    f'{"_MT " if mt else ""}{"_withranks " if RK else ""}files (stored, in file order: '
                                    f'{[PX["ppos"](r) for r in rows]})')
                elif sorted(keyed) != sorted(rows):      # multiset of particle rows preserved; their order is not pinned
                    bad('particles:set', f'particles staged (host id, j)={keyed}, stored={rows}')
                ex['runs_particles_reordered'] += int(keyed != rows and None not in keyed)
                for name, fexp in PX.items():
                    if name not in Pd:
                        bad(f'missing:{name}', f'particle_data has no {name!r}')
                        continue
                    arr = np.asarray(Pd[name])
                    if len(arr) != npz:
                        continue
                    for p, r in enumerate(keyed):
                        if r is None:
                            continue
                        e = np.asarray(fexp(r), dtype=np.float64)
                        o = np.asarray(arr[p], dtype=np.float64)
                        ex['particle_values_compared'] += int(e.size)
                        ok = o.shape == e.shape and bool((close(o, e, 1e-6) if name == 'pweights' else (o == e)).all())
                        if not ok:
                            bad(f'row:{name}', f'{name}[{p}] = {o.tolist()} but row {p} is particle {r[1]} of halo {r[0]} '
                                               f'whose value is {e.tolist()}; {name}={arr.tolist()}')
                            break
            if 'pinds' not in Pd:
                bad('missing:pinds', 'particle_data has no pinds')
            elif len(Pd['pinds']) == npz and 'phid' in Pd and len(Pd['phid']) == npz:
                pin = [int(x) for x in np.asarray(Pd['pinds']).tolist()]
                phid = [int(x) for x in np.asarray(Pd['phid']).tolist()]
                for p in range(npz):
                    ex['particle_values_compared'] += 1
                    if not (0 <= pin[p] < len(hl)) or hl[pin[p]] != phid[p]:
                        got = hl[pin[p]] if 0 <= pin[p] < len(hl) else 'out of range'
                        bad('pinds:host', f'pinds[{p}]={pin[p]} -> hid {got}, but the particle records halo id {phid[p]}; '
                                          f'hid={hl} phid={phid} pinds={pin}')
                        break
            if sample is None and n >= 3 and infile != ids and npz >= 2 and AB and nc == 1:
                sample = dict(slabs_ids_in_file_order=fs.slabs, config=cfg, staged_hid=hl,
                              staged_hrandoms=np.asarray(H['hrandoms']).tolist(), staged_hrvir=np.asarray(H['hrvir']).tolist(),
                              phid=[int(x) for x in Pd['phid']], pinds=[int(x) for x in Pd['pinds']])
    finally:
        shutil.rmtree(root, ignore_errors=True)
    ex['config'] = sorted(configs)
    return dict(problems=probs, evals=ex['runs_light'] + ex['runs_full'], nt=nt, extra=ex,
                sample=sample if case['rot'] % 41 == 0 else None)


def _owner(fs, fexp, o):
    """Which halo the observed value belongs to (for the message)."""
    for i in fs.K:
        e = np.asarray(fexp(i), dtype=np.float64)
        if e.shape == o.shape and (e == o).all():
            return f' (the observed value is that of halo id {i})'
    return ''

"""C13 - the power-spectrum estimate has the symmetries of the estimator.

Bounded exhaustive metamorphic enumeration on the real abacusnbody.analysis.power_spectrum.calc_power.

One case = one estimator configuration
    (nmesh, cell size h [Box = nmesh*h], paste, compensated, interlaced, logk, mubins, poles, dtype mode)
and inside it EVERY particle set of the tier (1, 2, 7, 24 particles from a per-axis coordinate alphabet in
eighths of a cell: cell centres, half-cell edges, quarter points, 0 and Box-1ulp; with and without weights).
For every particle set EVERY transformation of the stated generating set is executed as a real call:
    identical repeat; particle permutations reverse / rotate-by-one / adjacent swap;
    translation by k = 1..nmesh whole cells along each axis (+ one diagonal), periodic wrap, exact in the
    position dtype (verified with rationals in selfcheck and per call);
    nthread in {1, 2, 5, 16} (each repeated once: identical calls must agree);
    pos2 = pos as the same array object, as a copy, (thorough) as a permuted copy (weights likewise).
Position dtype / field dtype: float32/float32, float64/float64, float64/float32.
Oracle (from the property statement, never from the code under test):
    power, poles, k_avg agree with the base call within TOL * max|column| (TOL by OUTPUT dtype: 3e-5 float32,
    1e-11 float64); N_mode, N_mode_poles, k_min/k_max/k_mid, mu_min/mu_max/mu_mid, column names, shapes and dtypes
    are EXACTLY equal over all calls of the case (hence across particle sets), and - via finalize - N_mode, the k/mu
    ranges, column names and shapes (not the dtypes) across all cases that share (nmesh, Box, binning) whatever the
    paste/compensation/interlacing/dtype.
A comparison that fails is re-executed (both sides, twice, identical inputs) before it is classified: if identical calls
disagree among themselves the finding is non-deterministic painting (sig thread-count:tsc-race, the C07 stripe race seen
through calc_power) and not a violation of the particular symmetry.
The largest deviation of every passing comparison (the noise floor) is re-measured on every run and reported
in the evidence (`floor_*`); a floor above 1e-5 is reported as harness-error (the transformations themselves
would no longer be exact), not as a pass.
"""
import os
import warnings

# idle OpenMP pool threads must sleep, not spin: the machine is shared (scheduling only, no effect on results)
os.environ.setdefault('OMP_WAIT_POLICY', 'PASSIVE')
os.environ.setdefault('KMP_BLOCKTIME', '0')

import numpy as np

from vf import c13_sets as S

PID = 'C13'
LEVEL = 'exploration'
RULE = ('full product nmesh {4,5,6,8,13} x cell size {1,250} x {TSC,CIC} x compensated x interlaced x {linear nmesh bins, log 4 bins} x '
        'mubins {None,3} x poles {None,[0,2]} x {float32 positions+field, float64 positions+field, float64 positions on a float32 field} '
        '(quick: a strength-2 covering of the binning options, cell size alternating, float64 positions only for nmesh 5 and 8 with one '
        'binning each); inside each configuration every particle set of the tier '
        '(N = 1,1,2,7,24 (+second variants in thorough), weighted and unweighted) x every transformation: repeat, 3 generating '
        'permutations, translation by every k=1..nmesh cells on each axis + 1 diagonal, nthread {1,2,5,16} each twice, '
        'pos2=pos same object / copy / permuted copy. One real calc_power call per (set, transformation). '
        'non-trivial = distinct (configuration, particle set, transformation) whose transformed input differs from the base '
        'input (or whose thread count / second field differs) and whose base spectrum is non-zero')
ASSUMPTIONS = [
    'tolerance 3e-5 of max|column| for float32 outputs (1e-11 for float64 outputs); calc_power returns float32 power/poles/k_avg '
    'for every dtype argument (bin_kmu accumulates in float32), so the float32 tolerance applies to all cases',
    'positions are exact multiples of 1/8 cell (or Box - 1 ulp) on cell sizes 1 and 250, so that whole-cell translations are exact '
    'in float32 and float64; other boxes are not enumerated',
    'power_spectrum.gc is replaced by a no-op double (gc.collect costs 0.1-0.3 s per call in a loaded process); no effect on results',
    'the normalisation by len(pos) instead of sum(w), the treatment of odd nmesh in the wavenumber tables and the accuracy of the '
    'estimate are outside this property (only its symmetries are decided here)',
    'kbins as explicit edge arrays, k_max != Nyquist, squeeze_mu_axis=False, pos2 != pos are not enumerated',
]
CHUNK = 1
WORKERS = 8
# A failing comparison is re-executed inside run() (both sides, twice) before it is classified, which separates a deterministic
# violation from non-deterministic painting (sig thread-count:tsc-race).  core's own re-run of the whole case would label a rare
# race "did not reproduce"; it is therefore switched off.
NO_REPRO = True
ENVS = {'f8': {}}      # float64-position cases get their own worker pool: each pool compiles only its own numba specialisations

TOL = {'float32': 3e-5, 'float64': 1e-11}
FLOOR_LIMIT = 1e-5      # measured 1.6e-6 (nmesh <= 8) .. 2.3e-6 (nmesh 13); equivalent re-associations of the paint formula move it by ~1e-6
NMESH = [4, 5, 6, 8, 13]   # 13: the smallest mesh whose default TSC partition has 4 concurrent stripes
CELLS = [1.0, 250.0]
THREADS = [2, 5, 16]
# (logk, mubins, poles)
BINNINGS = [(lk, mb, pl) for lk in (0, 1) for mb in (0, 3) for pl in (0, 1)]
COVER = [(0, 0, 0), (0, 3, 1), (1, 0, 1), (1, 3, 0)]     # strength-2 covering array of the three binary options
SETS_QUICK = ['1a', '2a+w', '7a', '24a+w']
SETS_THOROUGH = ['1a', '1b', '2a', '2b+w', '7a', '7b+w', '24a', '24b+w']
TOL_COLS = ('power', 'poles', 'k_avg')
EXACT_COLS = ('N_mode', 'N_mode_poles', 'k_min', 'k_max', 'k_mid', 'mu_min', 'mu_max', 'mu_mid')


def BOUNDS(tier):
    return dict(nmesh=NMESH, cell_sizes=CELLS, paste=['TSC', 'CIC'], compensated=[0, 1], interlaced=[0, 1],
                binnings='(logk,mubins,poles[0,2]) ' + str(BINNINGS if tier != 'quick' else COVER),
                dtypes=['pos float32/field float32', 'pos float64/field float64', 'pos float64/field float32'], nthread=[1] + THREADS,
                particle_sets=SETS_QUICK if tier == 'quick' else SETS_THOROUGH,
                coordinate_alphabet_cells=[str(a) for a in S.alphabet_desc()], tol=TOL, floor_limit=FLOOR_LIMIT, tier=tier)


def cases(tier, seed):
    quick = tier == 'quick'
    sets = SETS_QUICK if quick else SETS_THOROUGH
    n = 0
    for dt in ('f4', 'f8', 'f84'):
        for g in NMESH:
            if quick and dt != 'f4' and g not in (5, 8):
                continue
            if quick and g == 13 and dt != 'f4':
                continue
            for paste in ('TSC', 'CIC'):
                if g == 13 and paste == 'CIC' and quick:
                    continue
                for comp in (0, 1):
                    for il in (0, 1):
                        rows = BINNINGS
                        if quick:
                            rows = COVER if dt == 'f4' else [COVER[(n + seed + (dt == 'f84')) % 4]]
                        for lk, mb, pl in rows:
                            n += 1
                            for h in (CELLS if not quick else [CELLS[(n + n // 4 + seed) % 2]]):
                                c = dict(g=g, h=h, paste=paste, comp=comp, il=il, logk=lk, mubins=mb, poles=pl, dt=dt, sets=sets)
                                if dt != 'f4':
                                    c['env'] = 'f8'
                                yield c


_PS = None


def worker_init():
    global _PS
    import types
    warnings.simplefilter('ignore')
    from abacusnbody.analysis import power_spectrum as ps
    ps.gc = types.SimpleNamespace(collect=lambda *a, **k: 0)
    _PS = ps


def selfcheck():
    S.selfcheck(NMESH, CELLS)


def cfgkey(c):
    return f"{c['g']}|{c['h']:g}|{c['paste']}|c{c['comp']}|i{c['il']}|l{c['logk']}|m{c['mubins']}|p{c['poles']}|{c['dt']}"


def framekey(c):
    return f"{c['g']}|{c['h']:g}|l{c['logk']}|m{c['mubins']}|p{c['poles']}"


class Res:
    """the table returned by one call, detached from astropy"""
    __slots__ = ('cols', 'names', 'meta')

    def __init__(self, t):
        self.names = tuple(t.colnames)
        self.cols = {n: np.array(t[n]) for n in t.colnames}
        self.meta = dict(t.meta)


def call(c, pos, w, nthread, pos2=None, w2=None):
    g = c['g']
    kw = dict(kbins=(4 if c['logk'] else None), mubins=(c['mubins'] or None), logk=bool(c['logk']), paste=c['paste'], nmesh=g,
              compensated=bool(c['comp']), interlaced=bool(c['il']), w=w, pos2=pos2, w2=w2,
              poles=([0, 2] if c['poles'] else None), nthread=nthread,
              dtype=(np.float64 if c['dt'] == 'f8' else np.float32))
    return Res(_PS.calc_power(pos, g * c['h'], **kw))


def digest(r, what):
    """what='layout': column names, shapes and the k / mu ranges; what='nmode': N_mode and N_mode_poles.
    Column dtypes are NOT hashed: a float64 field may legitimately give float64 power/poles/k_avg."""
    import hashlib
    m = hashlib.sha1()
    if what == 'layout':
        m.update(repr(r.names).encode())
    for n in r.names:
        a = r.cols[n]
        if what == 'layout':
            m.update(f'{n}:{a.shape}'.encode())
        if n in EXACT_COLS and (n.startswith('N_mode') == (what == 'nmode')):
            canon = np.int64 if n.startswith('N_mode') else np.float64
            if not np.array_equal(a.astype(canon), a):
                m.update(f'{a.dtype}'.encode())      # values not representable in the canonical type: keep the dtype
            m.update(np.ascontiguousarray(a.astype(canon)).tobytes())
    return m.hexdigest()[:16]


def run(c):
    g, h = c['g'], c['h']
    fdt = np.float32 if c['dt'] == 'f4' else np.float64      # dtype of positions and weights
    key = cfgkey(c)
    sigtail = f"{c['paste']}:{'il' if c['il'] else 'nil'}"
    probs, nt = [], []
    seen = set()
    cnt = dict(calls_base=0, calls_repeat=0, calls_perm=0, calls_translate=0, calls_thread=0, calls_cross=0, calls_raceprobe=0,
               tol_comparisons=0, exact_comparisons=0, bitwise_identical_repeats=0, bitwise_identical_transforms=0,
               translations_input_checked_exact=0)
    floors = {}
    outd = set()
    frame = None          # first result of the case: reference for everything that must not depend on the particles
    frame_desc = None
    kavg1 = None
    sample = None

    def problem(sig, msg):
        if sig not in seen or len(probs) < 40:
            probs.append(dict(sig=sig, msg=f'[{key}] {msg}'))
        seen.add(sig)

    def exact(r, desc, nthread):
        """table shape, names, dtypes, N_mode and the k/mu ranges: exactly those of the first call of the case"""
        nonlocal frame, frame_desc, kavg1
        if frame is None:
            frame, frame_desc = r, desc
            # internal consistency of the frame with the documented table layout
            nb = len(r.cols['k_mid'])
            for n in r.names:
                if len(r.cols[n]) != nb:
                    problem(f'exact:shape:{sigtail}', f'{desc}: column {n} has {len(r.cols[n])} rows, k_mid has {nb}')
            want = (nb, c['mubins']) if c['mubins'] else (nb,)
            for n in ('power', 'N_mode', 'k_avg'):
                if r.cols[n].shape != want:
                    problem(f'exact:shape:{sigtail}', f'{desc}: {n}.shape={r.cols[n].shape}, documented {want}')
            if c['poles'] and r.cols['poles'].shape != (nb, 2):
                problem(f'exact:shape:{sigtail}', f"{desc}: poles.shape={r.cols['poles'].shape}, documented {(nb, 2)}")
        cnt['exact_comparisons'] += 1
        if r.names != frame.names:
            problem(f'exact:columns:{sigtail}', f'{desc}: columns {r.names} but {frame_desc}: {frame.names}')
            return
        for n in r.names:
            a, b = r.cols[n], frame.cols[n]
            if a.dtype != b.dtype or a.shape != b.shape:
                problem(f'exact:shape:{sigtail}', f'{desc}: {n} is {a.dtype}{a.shape} but {frame_desc}: {b.dtype}{b.shape}')
            elif n in EXACT_COLS and not np.array_equal(a, b):
                problem(f'exact:{n}:{sigtail}', f'{desc}: {n}={a.tolist()} but {frame_desc}: {n}={b.tolist()}')
        # k_avg does not depend on the particles either; single-threaded it is one fixed summation order
        if nthread == 1:
            if kavg1 is None:
                kavg1 = (r.cols['k_avg'], desc)
            elif r.cols['k_avg'].shape == kavg1[0].shape and not np.array_equal(r.cols['k_avg'], kavg1[0]):
                problem(f'exact:k_avg-nthread1:{sigtail}',
                        f"{desc}: k_avg={r.cols['k_avg'].tolist()} but {kavg1[1]}: {kavg1[0].tolist()} (both nthread=1)")

    def dev(r, base):
        """largest deviation of the tolerant columns relative to max|column| of the base; (dev, column, finite?)"""
        worst, wcol = 0.0, None
        for n in TOL_COLS:
            if n not in base.cols or n not in r.cols or r.cols[n].shape != base.cols[n].shape:
                continue
            a = r.cols[n].astype(np.float64)
            b = base.cols[n].astype(np.float64)
            if not (np.isfinite(a).all() and np.isfinite(b).all()):
                return float('inf'), n
            scale = float(np.abs(b).max())
            if scale == 0.0:
                scale = 1.0 if float(np.abs(a).max()) == 0.0 else float(np.abs(a).max())
            d = float(np.abs(a - b).max()) / scale
            if wcol is None or d > worst:
                worst, wcol = d, n
        return worst, wcol

    def tolerant(r, base, cls, desc, fl):
        cnt['tol_comparisons'] += 1
        d, col = dev(r, base)
        if d <= TOL.get(str(base.cols['power'].dtype), TOL['float32']):
            floors[fl] = max(floors.get(fl, 0.0), d)
            return True, d, col
        return False, d, col

    def show(r, base, col):
        a, b = r.cols[col], base.cols[col]
        i = np.unravel_index(int(np.argmax(np.abs(a.astype(np.float64) - b.astype(np.float64)))), a.shape)
        return f'{col}{list(map(int, i))}: got {a[i]!r}, base {b[i]!r}, max|base {col}|={np.abs(b).max()!r}'

    tol = TOL['float32']

    for sname in c['sets']:
        ps = S.build(sname, g, h, fdt)
        desc0 = f'set {sname} (N={ps.n}, Box={g * h:g})'
        pos0, w0 = ps.pos(), ps.w()

        def mkbase():
            return pos0.copy(), (None if w0 is None else w0.copy()), None, None

        base = call(c, *mkbase()[:2], 1)
        cnt['calls_base'] += 1
        outd.add(str(base.cols['power'].dtype))
        tol = TOL.get(str(base.cols['power'].dtype), TOL['float32'])
        exact(base, desc0 + ' base nthread=1', 1)
        if base.meta.get('N_pos') != ps.n:
            problem('exact:meta', f"{desc0}: meta N_pos={base.meta.get('N_pos')}")
        nontriv = bool(np.abs(base.cols['power']).max() > 0)
        ftag = f"{c['dt']}_h{h:g}"
        B = [base]            # replaced when the first base call turns out to be the outlier of a non-deterministic paint

        def race(where, nth, ra, rb, d, col, note=''):
            what = 'thread-count:tsc-race' if c['paste'] == 'TSC' else f'identical-calls-disagree:{sigtail}'
            problem(what, f'{desc0}, positions(cells)={ps.cells_str()} weights={None if w0 is None else w0.tolist()}: IDENTICAL repeated calls '
                          f'({where}, nthread={nth}) disagree in {col} by {d:.3g} of max (tolerance {tol:g}); '
                          f'{show(ra, rb, col) if np.isfinite(d) else "non-finite values"}{note}')

        def one(cls, param, mk, nthread=1, differs=True):
            """one transformed call compared with the base of this particle set -> (result, 'ok' | 'fail' | 'race', dev, column).
            A failing comparison is believed only after both sides have been re-executed twice with identical inputs: if a
            re-execution disagrees with its own first execution the code is non-deterministic and that is what is reported."""
            pa, wa, p2, w2 = mk()
            r = call(c, pa, wa, nthread, p2, w2)
            d = f'{desc0} {cls}:{param}'
            exact(r, d, nthread)
            ok, dv, col = tolerant(r, B[0], cls, d, f'floor_{cls}_{ftag}')
            if nontriv and differs:
                nt.append(f'{key}|{sname}|{cls}:{param}')
            if ok:
                if differs and all(np.array_equal(r.cols[n], B[0].cols[n]) for n in TOL_COLS if n in B[0].cols):
                    cnt['bitwise_identical_transforms'] += 1
                return r, 'ok', dv, col
            rb = [call(c, *mkbase()[:2], 1) for _ in range(2)]
            rt = []
            for _ in range(2):
                pa, wa, p2, w2 = mk()
                rt.append(call(c, pa, wa, nthread, p2, w2))
            cnt['calls_raceprobe'] += 4
            db, cb = max((dev(x, B[0]) for x in rb), key=lambda t: t[0])
            dt_, ct = max((dev(x, r) for x in rt), key=lambda t: t[0])
            if db > tol or dt_ > tol:
                if db > tol:
                    race('the base call of this set', 1, rb[0] if dev(rb[0], B[0])[0] > tol else rb[1], B[0], db, cb,
                         f'; found while checking {cls} {param}')
                    if dev(rb[0], rb[1])[0] <= tol:
                        B[0] = rb[0]      # the two re-executions agree: the first base call was the outlier
                else:
                    race(f'{cls} {param}', nthread, rt[0] if dev(rt[0], r)[0] > tol else rt[1], r, dt_, ct)
                return r, 'race', dv, col
            return r, 'fail', dv, col

        def fail(cls, param, r, dv, col):
            problem(f'{cls}:{sigtail}:{col}',
                    f'{desc0}, positions(cells)={ps.cells_str()} weights={None if w0 is None else w0.tolist()}: {cls} {param} changes '
                    f'{col} by {dv:.3g} of max (tolerance {tol:g}); {show(r, B[0], col) if np.isfinite(dv) else "non-finite values"} '
                    f'(both calls re-executed twice: deterministic)')

        # identical repeat (single thread): the two calls have the same inputs
        r, st, dv, col = one('repeat', 'n1', mkbase, 1, differs=False)
        cnt['calls_repeat'] += 1
        if st == 'ok' and dv == 0.0:
            cnt['bitwise_identical_repeats'] += 1
        if st == 'fail':
            fail('repeat', 'second identical call (state left behind by the first?)', r, dv, col)

        # permutations (a generating set of the symmetric group)
        for pname, order in ps.perms():
            r, st, dv, col = one('perm', pname, lambda: (pos0[order].copy(), None if w0 is None else w0[order].copy(), None, None), 1)
            cnt['calls_perm'] += 1
            if st == 'fail':
                fail('perm', pname, r, dv, col)

        # translations by whole cells, periodic wrap
        shifts = [tuple(k if a == ax else 0 for a in range(3)) for ax in range(3) for k in range(1, g + 1)] + [(1, 2, g - 1)]
        for sh in shifts:
            pt, exact_ok = ps.translated(sh)
            cnt['translations_input_checked_exact'] += 1
            if not exact_ok:
                problem('harness-error:inexact-translation', f'{desc0}: translation {sh} not exactly representable')
                continue
            differs = not np.array_equal(pt, pos0)
            r, st, dv, col = one('translate', 'x'.join(map(str, sh)), lambda: (pt.copy(), None if w0 is None else w0.copy(), None, None), 1,
                                 differs=differs)
            cnt['calls_translate'] += 1
            if st == 'fail':
                fail('translate', f'by {sh} cells', r, dv, col)

        # thread counts; each twice (identical calls must agree)
        for nth in THREADS:
            r1, st, dv1, col1 = one('thread-count', f'n{nth}', mkbase, nth)
            cnt['calls_thread'] += 1
            if st == 'fail':
                fail('thread-count', f'nthread={nth} vs 1', r1, dv1, col1)
            r2 = call(c, *mkbase()[:2], nth)
            cnt['calls_repeat'] += 1
            exact(r2, f'{desc0} repeat nthread={nth}', nth)
            okr, dvr, colr = tolerant(r2, r1, 'repeat', '', f'floor_repeat_{ftag}')
            if okr and dvr == 0.0:
                cnt['bitwise_identical_repeats'] += 1
            if not okr and st != 'race':
                race('thread-count repeat', nth, r2, r1, dvr, colr, f'; deviation of the first from nthread=1: {dv1:.3g}')

        # cross spectrum of the field with itself == auto spectrum
        def mkcross(vname):
            def mk():
                p1 = pos0.copy()
                w1 = None if w0 is None else w0.copy()
                if vname == 'same-object':
                    return p1, w1, p1, w1
                if vname == 'copy':
                    return p1, w1, p1.copy(), (None if w1 is None else w1.copy())
                order = ps.perms()[0][1]
                return p1, w1, pos0[order].copy(), (None if w0 is None else w0[order].copy())
            return mk
        variants = ['same-object', 'copy'] + (['permuted-copy'] if ps.n >= 2 and len(c['sets']) > 4 else [])
        for vname in variants:
            r, st, dv, col = one('cross', vname, mkcross(vname), 1)
            cnt['calls_cross'] += 1
            if r.meta.get('N_pos2') != ps.n:
                problem('exact:meta', f"{desc0}: meta N_pos2={r.meta.get('N_pos2')}")
            if st == 'fail':
                fail('cross', f'pos2=pos ({vname})', r, dv, col)
        base = B[0]

        if sample is None and ps.n == 7:
            sample = dict(config=key, particle_set=sname, positions_in_cells=ps.cells_str(), weights=None if w0 is None else w0.tolist(),
                          power=base.cols['power'].ravel()[:6].tolist(), N_mode=base.cols['N_mode'].ravel()[:6].tolist(),
                          poles=(base.cols['poles'][:3].tolist() if 'poles' in base.cols else None),
                          largest_deviation_by_class={k.split('_')[1]: float(f'{v:.3g}') for k, v in floors.items()})

    evals = sum(v for k, v in cnt.items() if k.startswith('calls_'))
    extra = dict(cnt)
    # layout and k/mu ranges: one table per (mesh, box, binning).  N_mode: one table per (mesh, box, binning, precision in
    # which the estimator evaluates the bin edges = dtype of the returned power): the default binning puts whole shells of
    # modes exactly ON bin edges (|k| = j*dk, edges at j*dk/2), so the side they fall on is a rounding convention of the
    # edge arithmetic (either neighbour is legitimate); it must still never depend on the particles (checked per case).
    extra['frames'] = [framekey(c) + '#L' + digest(frame, 'layout'),
                       framekey(c) + '@' + str(frame.cols['power'].dtype) + '/' + str(c['dt']) + '#N' + digest(frame, 'nmode')]     # (and the precision of the field it was given)
    extra['output_dtypes'] = sorted(outd)
    show_sample = sample if (c['comp'] and c['poles'] and (c['g'], c['paste'], c['il'], c['dt']) in
                             ((8, 'TSC', 1, 'f4'), (5, 'CIC', 0, 'f4'), (6, 'TSC', 0, 'f4'), (8, 'CIC', 1, 'f84'), (5, 'TSC', 1, 'f8'))) else None
    return dict(problems=probs, evals=evals, nt=nt, extra=extra, max=floors, sample=show_sample)


def finalize(agg, tier):
    out = []
    # N_mode, k/mu ranges and the table layout depend on (mesh, box, binning) only
    groups = {}
    for f in agg.sets.get('frames', ()):
        k, d = f.split('#')
        groups.setdefault(k, set()).add(d)
    bad = {k: v for k, v in groups.items() if len(v) > 1}
    agg.extra['frame_groups'] = len(groups)
    if bad:
        k = sorted(bad)[0]
        out.append(dict(sig='exact:frame-differs-across-configurations',
                        msg=f'{"N_mode" if "@" in k else "k,mu ranges / table layout"} differ between configurations that share (nmesh|cell|logk|mubins|poles[@output precision])={k}: '
                            f'{len(bad[k])} different tables ({len(bad)} such groups)'))
    worst = max([v for k, v in agg.extra.items() if k.startswith('floor_')] or [0.0])
    agg.extra['floor_overall'] = worst
    if worst > FLOOR_LIMIT:
        ks = {k: v for k, v in agg.extra.items() if k.startswith('floor_') and v > FLOOR_LIMIT}
        out.append(dict(sig='harness-error:noise-floor',
                        msg=f'noise floor of passing comparisons {ks} exceeds {FLOOR_LIMIT:g} (tolerance 3e-5): the harness transformations are not exact enough or a small real effect hides below the tolerance'))
    if not any(k.startswith('floor_') for k in agg.extra):
        out.append(dict(sig='harness-error:no-floor', msg='no passing tolerant comparison: noise floor not measured'))
    return out

"""C14 - blosc block decompression is independent of how the stream is chunked.

E-BFS, explicit-state search over the real BloscCompressor.decompress.  The harness supplies `blocks` as a
generator; whenever the parser asks for the next chunk the generator reads the parser's complete loop state
from its frame locals (_size, _pos, _partial_len, _buffer[:_pos], bytesout) plus the output bytes so far.
Transitions: the next chunk has length 0..remaining.  Every transition is a real execution (replay from the
start).  Merging is validated by also running ALL 2^(L-1) chunk compositions of short streams unmerged.
"""
import itertools
import struct
import sys
import numpy as np

PID = 'C14'
LEVEL = 'model_checking'
RULE = ('streams = 0-4 frames from the real compress (item sizes 1,2,4,8; compression block sizes incl. non-multiples; 0..40 '
        'items); state = (offset, _size, _pos, _partial_len, _buffer[:_pos], bytesout, output bytes) read from the parser frame; '
        'transitions = next chunk length 0..remaining; plus all 2^(L-1) compositions of mini-frame streams, compress/decompress '
        'round trips and asdf reads with forced io_block_size; non-trivial = distinct (stream, state) pairs with offset inside a '
        'length prefix or inside a frame body')
ASSUMPTIONS = ['blosc codec replaced by a strict self-delimiting double (mis-framing raises); only abacusutils framing is checked',
               'parser state is complete in the named frame locals (if they cannot be read, only the unmerged composition runs decide)']
CHUNK = 1
WORKERS = 16
G = 16
SENT = 0xA5


def payload(nitems, itemsize):
    n = nitems * itemsize
    return bytes((i * 37 + 11 + (i >> 3)) & 0xFF for i in range(n))


def cases(tier, seed):
    specs = []
    if tier == 'quick':
        specs = [(0, 4, 16), (1, 1, 4), (5, 4, 8), (7, 2, 6), (12, 8, 40), (9, 1, 4), (40, 4, 64), (3, 8, 8)]
    else:
        for isz in (1, 2, 4, 8):
            for nit in (0, 1, 2, 3, 5, 8, 13, 24, 40):
                for cbs in (isz, 3 * isz, 5 * isz + 1, 16 * isz, 64 * isz):
                    if nit * isz / max(cbs // isz * isz, isz) <= 4.01:
                        specs.append((nit, isz, cbs))
    for nit, isz, cbs in specs:
        yield dict(kind='bfs', nitems=nit, itemsize=isz, cbs=cbs)
    # unmerged brute force over mini-frame streams
    minis = [[1], [1, 0], [0, 2], [2, 1]] if tier == 'quick' else [[1], [0], [1, 0], [0, 2], [2, 1], [1, 1, 0], [0, 1, 2], [3, 0, 0], [1, 2, 1]]
    for m in minis:
        yield dict(kind='brute', mini=m)
        yield dict(kind='bfs', mini=m)
    # round trips
    for isz in (1, 2, 4, 8):
        for cbs in sorted({isz, 2 * isz - 1 if isz > 1 else 2, isz + isz // 2 + 1, 2 * isz, 3 * isz + 1, 7 * isz, 100, 1 << 22}):
            if cbs < isz:
                continue
            yield dict(kind='roundtrip', itemsize=isz, cbs=cbs, nmax=80 if tier == 'quick' else 300)
    # wide records (structured rows wider than blosc's 255-byte typesize limit): refused with an error, or round-tripped
    for isz in (256, 300):
        for cbs in (isz, 4 * isz, 4096, 1 << 22):
            yield dict(kind='roundtrip', itemsize=isz, cbs=cbs, nmax=24 if tier == 'quick' else 80)
    # one compressor object used for several blocks in a row (also after a truncated read): no state may survive a call
    yield dict(kind='reuse', depth=2 if tier == 'quick' else 3)
    # two decompressions running on ONE compressor object at the same time: every interleaving of their chunk reads
    yield dict(kind='interleave', bound=2)
    # typed / multi-dimensional output buffers
    yield dict(kind='typedout')
    # frames longer than 2^16 bytes (length prefix beyond 16 bits) and a long multi-frame stream, a few chunkings each
    yield dict(kind='bigframe')
    for bs in ((1, 3, 7, 64, -1) if tier == 'quick' else (1, 2, 3, 5, 7, 11, 64, 4096, -1)):
        yield dict(kind='asdf', io_block_size=bs)


def split_frames(stream):
    """the on-disk format: [big-endian uint32 length | frame]*; how compress() groups the bytes it yields does not matter"""
    frames = []
    o = 0
    while o < len(stream):
        if o + 4 > len(stream):
            raise AssertionError(f'dangling length prefix at byte {o} of {len(stream)}')
        (ln,) = struct.unpack('!I', stream[o:o + 4])
        if o + 4 + ln > len(stream):
            raise AssertionError(f'length prefix {ln} at byte {o} runs past the end of the {len(stream)}-byte stream')
        frames.append(bytes(stream[o + 4:o + 4 + ln]))
        o += 4 + ln
    return frames


def make_stream(case):
    """returns (stream bytes, payload bytes, frame boundaries [(start, body_start, end, raw_len)])"""
    import blosc
    from abacusnbody.data.asdf import BloscCompressor
    if 'mini' in case:
        raws = [payload(n, 1)[::-1] if i % 2 else payload(n, 1) for i, n in enumerate(case['mini'])]
        frames = [blosc.mini_frame(r) for r in raws]
        pay = b''.join(raws)
    else:
        isz = case['itemsize']
        pay = payload(case['nitems'], isz)
        arr = np.frombuffer(pay, dtype={1: 'u1', 2: 'u2', 4: 'u4', 8: 'u8'}[isz])
        frames = split_frames(b''.join(bytes(x) for x in BloscCompressor().compress(memoryview(arr), compression_block_size=case['cbs'])))
        raws = [blosc.decompress(f) for f in frames]
        assert b''.join(raws) == pay, 'compress did not preserve the payload'
    stream = b''.join(struct.pack('!I', len(f)) + f for f in frames)
    bounds = []
    o = 0
    for f, r in zip(frames, raws):
        bounds.append((o, o + 4, o + 4 + len(f), len(r)))
        o += 4 + len(f)
    return stream, pay, bounds


class Exec:
    """One real execution of decompress on `stream` cut into `chunks`; observes the parser state when it asks
    for the chunk after the last one supplied."""

    def __init__(self, stream, pay):
        self.stream, self.pay = stream, pay

    def run(self, chunks):
        import blosc
        from abacusnbody.data.asdf import BloscCompressor
        n = len(self.pay)
        big = np.full(n + 2 * G, SENT, dtype=np.uint8)
        out = memoryview(big)[G:G + n]
        base = big.ctypes.data + G
        blosc.WRITE_WINDOW = (base, n)
        obs = {'offset': sum(chunks), 'state': None}
        stream = self.stream

        def feeder():
            o = 0
            for c in chunks:
                yield stream[o:o + c]
                o += c
            obs['exhausted'] = True
            obs['offset'] = o
            try:
                fr = sys._getframe(1)
                loc = fr.f_locals if fr.f_code.co_name == 'decompress' else {}
                buf = loc['_buffer']
                pos_ = int(loc['_pos']) if buf is not None else -1
                obs['state'] = (int(loc['_size']), pos_, bytes(loc['_partial_len']),
                                bytes(memoryview(buf).cast('B')[:pos_]) if buf is not None else None, int(loc['bytesout']))
            except Exception:
                obs['state'] = None      # the parser keeps its state elsewhere / in another form: no merging, brute force decides

        try:
            ret = BloscCompressor().decompress(feeder(), out)
            err = None
        except Exception as e:  # the strict codec double raises on mis-framing
            ret, err = None, f'{type(e).__name__}: {e}'
        finally:
            blosc.WRITE_WINDOW = None
        if err is not None and obs.get('exhausted') and sum(chunks) < len(stream):
            # the stream was cut short by the harness (an intermediate state of the search): rejecting it is legitimate
            obs['truncated_raise'] = err
            err = None
        obs['ret'] = ret
        obs['err'] = err
        obs['out'] = big[G:G + n].tobytes()
        obs['guard_ok'] = bool((big[:G] == SENT).all() and (big[G + n:] == SENT).all())
        return obs


def completed(bounds, offset):
    return sum(r for (s, b, e, r) in bounds if e <= offset)


def check_obs(obs, pay, bounds, L, chunks):
    """invariants for one execution; returns list of (sig, msg)"""
    ps = []
    o = obs['offset']
    if obs['err']:
        return [('decompress-raises', f'chunks={chunks}: {obs["err"]}')]
    if not obs['guard_ok']:
        ps.append(('write-outside-output', f'chunks={chunks}'))
    done = completed(bounds, o)
    st = obs['state']
    bo = st[4] if st else None
    if o == L:
        if obs['ret'] != len(pay):
            ps.append(('wrong-length', f'chunks={chunks}: returned {obs["ret"]} for a payload of {len(pay)} bytes'))
        if obs['out'] != pay:
            ps.append(('wrong-bytes', f'chunks={chunks}: output differs from the payload'))
    else:
        if bo is not None and bo != done:
            ps.append(('bytesout-vs-frames', f'chunks={chunks}: bytesout={bo} but completed frames hold {done} bytes'))
        if obs['out'][:done] != pay[:done] or any(x != SENT for x in obs['out'][done:]):
            ps.append(('partial-output', f'chunks={chunks}: output is not exactly the first {done} payload bytes'))
    return ps


def run_bfs(case):
    stream, pay, bounds = make_stream(case)
    L = len(stream)
    ex = Exec(stream, pay)
    probs = []
    seen = {}
    nexec = 0
    ntrans = 0
    nt = []

    def canon(obs):
        return (obs['offset'], obs['state'], obs['out'])
    o0 = ex.run([])
    nexec += 1
    if o0['err']:
        return dict(problems=[dict(sig='bfs:decompress-raises', msg=f'{stream_desc(case)}: empty history: {o0["err"]}')], evals=1)
    if o0['state'] is None:
        return dict(problems=[], evals=1, extra=dict(parser_state_unreadable=1))
    seen[canon(o0)] = []
    frontier = [[]]
    self_loops = 0
    maxdepth = 0
    while frontier:
        nxt = []
        for hist in frontier:
            o = sum(hist)
            src = None
            for n in range(0, L - o + 1):
                obs = ex.run(hist + [n])
                nexec += 1
                ntrans += 1
                for sig, msg in check_obs(obs, pay, bounds, L, hist + [n]):
                    probs.append(dict(sig='bfs:' + sig, msg=f'{stream_desc(case)} L={L}: {msg}'))
                k = canon(obs)
                if n == 0:
                    # a zero-length chunk must not change the state
                    if src is None:
                        src = canon(ex.run(hist)); nexec += 1
                    if k != src:
                        probs.append(dict(sig='bfs:empty-chunk-changes-state', msg=f'{stream_desc(case)}: history {hist} + empty chunk'))
                    else:
                        self_loops += 1
                    continue
                if k not in seen:
                    seen[k] = hist + [n]
                    maxdepth = max(maxdepth, len(hist) + 1)
                    if obs['offset'] < L:
                        nxt.append(hist + [n])
                if len(seen) > 20 * (L + 1) + 50:
                    probs.append(dict(sig='bfs:state-explosion', msg=f'{stream_desc(case)}: more than {len(seen)} parser states for a {L}-byte stream'))
                    nxt = []
                    break
            if probs and len(probs) > 20:
                nxt = []
                break
        frontier = nxt
    for (off, st, out) in seen:
        inside = any(s < off < e for (s, b, e, r) in bounds)
        if inside and st is not None:
            nt.append((stream_desc(case), off, st[0], st[1], len(st[2])))
    return dict(problems=probs[:10], evals=nexec, states=len(seen), transitions=ntrans, traces=nexec, nt=nt,
                extra=dict(real_executions=nexec, empty_chunk_self_loops=self_loops, stream_bytes=L),
                max=dict(max_states_per_stream=len(seen), max_history_depth=maxdepth),
                sample=dict(stream=stream_desc(case), stream_len=L, frames=[(e - s) for s, b, e, r in bounds],
                            example_history=seen[max(seen, key=lambda k: len(seen[k]))]) if case.get('nitems') == 7 else None)


def stream_desc(case):
    return f"mini{case['mini']}" if 'mini' in case else f"n{case['nitems']}x{case['itemsize']}B/cbs{case['cbs']}"


def run_brute(case):
    stream, pay, bounds = make_stream(case)
    L = len(stream)
    ex = Exec(stream, pay)
    probs = []
    n = 0
    if L == 0:
        return dict(problems=[], evals=0)
    for cuts in itertools.product((0, 1), repeat=L - 1):
        chunks = []
        last = 0
        for i, c in enumerate(cuts, 1):
            if c:
                chunks.append(i - last)
                last = i
        chunks.append(L - last)
        obs = ex.run(chunks)
        n += 1
        for sig, msg in check_obs(obs, pay, bounds, L, chunks):
            probs.append(dict(sig='brute:' + sig, msg=f'{stream_desc(case)}: {msg}'))
            if len(probs) > 10:
                break
    return dict(problems=probs[:5], evals=n, traces=n, states=0, transitions=0, nt=[('brute', stream_desc(case))],
                extra=dict(unmerged_compositions=n))


def run_roundtrip(case):
    from abacusnbody.data.asdf import BloscCompressor
    isz = case['itemsize']
    probs = []
    n = refused = 0
    for nit in range(case['nmax'] + 1):
        pay = payload(nit, isz)
        arr = np.frombuffer(pay, dtype={1: 'u1', 2: 'u2', 4: 'u4', 8: 'u8'}.get(isz, f'V{isz}'))
        try:
            stream = b''.join(bytes(x) for x in BloscCompressor().compress(memoryview(arr), compression_block_size=case['cbs']))
        except (ValueError, TypeError, AssertionError) as e:
            if isz > 255:
                refused += 1        # the codec's typesize limit: an error is an acceptable answer, silent truncation is not
                continue
            raise
        try:
            split_frames(stream)
        except AssertionError as e:
            probs.append(dict(sig='roundtrip:length-prefix', msg=f'{nit} items x {isz}B cbs={case["cbs"]}: {e}'))
        for chunks in ([len(stream)], [1] * len(stream), [3] * (len(stream) // 3) + ([len(stream) % 3] if len(stream) % 3 else [])):
            obs = Exec(stream, pay).run([c for c in chunks if c or not stream])
            n += 1
            if obs['err'] or obs['ret'] != len(pay) or obs['out'] != pay or not obs['guard_ok']:
                probs.append(dict(sig='roundtrip:identity', msg=f'{nit} items x {isz}B cbs={case["cbs"]} chunks of {chunks[:1]}: err={obs["err"]} ret={obs["ret"]}'))
    return dict(problems=probs[:5], evals=n, traces=n, nt=[('roundtrip', isz, case['cbs'])], extra=dict(roundtrips=n, wide_records_refused=refused))


def run_asdf(case):
    import asdf, tempfile, shutil, os
    from vf import asdfpatch
    asdfpatch.patch()
    probs = []
    d = tempfile.mkdtemp(prefix='vfc14', dir='/dev/shm')
    n = 0
    try:
        arrs = {f'a{isz}_{nit}': np.frombuffer(payload(nit, isz), dtype={1: 'u1', 2: 'u2', 4: 'u4', 8: 'u8'}[isz]).copy()
                for isz in (1, 2, 4, 8) for nit in (0, 1, 7, 300)}
        fn = os.path.join(d, 't.asdf')
        af = asdf.AsdfFile({'data': arrs})
        af.write_to(fn, all_array_compression='blsc', compression_kwargs=dict(compression_block_size=96))
        with asdf.config_context() as cfg:
            cfg.io_block_size = case['io_block_size']
            with asdf.open(fn, lazy_load=True, memmap=False) as f:
                for k, a in arrs.items():
                    n += 1
                    try:
                        got = f['data'][k][:]
                    except Exception as e:
                        probs.append(dict(sig='asdf:read-raises', msg=f'io_block_size={case["io_block_size"]} array {k}: {type(e).__name__}: {e}'))
                        continue
                    if got.dtype != a.dtype or not np.array_equal(got, a):
                        probs.append(dict(sig='asdf:read-differs', msg=f'io_block_size={case["io_block_size"]} array {k}'))
    finally:
        shutil.rmtree(d, ignore_errors=True)
    return dict(problems=probs, evals=n, traces=n, nt=[('asdf', case['io_block_size'])], extra=dict(asdf_array_reads=n))


def run_reuse(case):
    """every sequence (up to `depth`) of (stream, chunking) calls on ONE BloscCompressor instance; chunkings = whole / all
    single cuts; streams include one that ends in the middle of a frame (a truncated read, which may raise or return short)"""
    import blosc
    from abacusnbody.data.asdf import BloscCompressor
    specs = [dict(nitems=5, itemsize=4, cbs=8), dict(nitems=3, itemsize=8, cbs=8), dict(mini=[1, 2])]
    streams = [make_stream(s) for s in specs]
    calls = []
    for si, (stream, pay, bounds) in enumerate(streams):
        L = len(stream)
        cuts = [[L]] + [[c, L - c] for c in range(1, L)]
        if si == 0:
            cuts = cuts[:1] + cuts[1::3]
        for ch in cuts:
            calls.append((si, ch, False))
        calls.append((si, [L - 3], True))     # truncated: the last frame is cut short
    probs = []
    n = 0
    nt = []

    def one(comp, si, chunks, truncated):
        stream, pay, bounds = streams[si]
        big = np.full(len(pay) + 2 * G, SENT, dtype=np.uint8)
        out = memoryview(big)[G:G + len(pay)]
        blosc.WRITE_WINDOW = (big.ctypes.data + G, len(pay))
        o = 0
        blocks = []
        for c in chunks:
            blocks.append(stream[o:o + c]); o += c
        try:
            ret = comp.decompress(iter(blocks), out)
            err = None
        except Exception as e:
            ret, err = None, f'{type(e).__name__}: {e}'
        finally:
            blosc.WRITE_WINDOW = None
        return ret, err, big[G:G + len(pay)].tobytes(), bool((big[:G] == SENT).all() and (big[G + len(pay):] == SENT).all())
    for seq in itertools.product(range(len(calls)), repeat=case['depth']):
        comp = BloscCompressor()
        for pos, ci in enumerate(seq):
            si, chunks, trunc = calls[ci]
            ret, err, outb, guard = one(comp, si, chunks, trunc)
            n += 1
            pay = streams[si][1]
            if not guard:
                probs.append(dict(sig='reuse:write-outside-output', msg=f'sequence {[calls[c] for c in seq]} call {pos}'))
            if not trunc and (err or ret != len(pay) or outb != pay):
                probs.append(dict(sig='reuse:later-call-differs', msg=f'call {pos} of sequence {[calls[c] for c in seq]} on one compressor object: err={err} ret={ret} (payload {len(pay)} bytes)'))
                break
        if len(probs) > 5:
            break
    nt = [('reuse', case['depth'], len(calls))]
    return dict(problems=probs[:3], evals=n, traces=n, states=len(calls) ** case['depth'], transitions=n, nt=nt, extra=dict(reuse_calls=n))


def run_interleave(case):
    """E-SCHED over two concurrent decompress calls on one BloscCompressor object; scheduling points = each request for the
    next read chunk.  All schedules up to the preemption bound; every call must return its own payload."""
    import blosc
    from vf import twin
    from abacusnbody.data.asdf import BloscCompressor
    specs = [dict(nitems=6, itemsize=4, cbs=8), dict(nitems=4, itemsize=8, cbs=16)]
    streams = [make_stream(s) for s in specs]
    probs = []
    notes = []      # C14 speaks about one stream at a time; interference between two calls sharing an object is recorded, not alarmed
    nexec = 0
    outcomes = set()
    # chunkings: cut every frame in the middle (so partially reassembled frames are in flight) / whole stream
    def cutpoints(bounds, L):
        c = []
        for (s0, b, e, r) in bounds:
            c += [b + (e - b) // 2, e]
        return sorted(set(x for x in c if 0 < x < L))
    plans = []
    for (stream, pay, bounds) in streams:
        L = len(stream)
        cp = cutpoints(bounds, L)
        plans.append([b - a for a, b in zip([0] + cp, cp + [L])])

    def run_one(prefix):
        sch = twin.Scheduler(prefix)
        rt = twin.Runtime(mode='sched', scheduler=sch)
        comp = BloscCompressor()
        res = [None, None]

        def body(i):
            stream, pay, bounds = streams[i]
            big = np.full(len(pay) + 2 * G, SENT, dtype=np.uint8)
            out = memoryview(big)[G:G + len(pay)]

            def feeder():
                o = 0
                for c in plans[i]:
                    sch.point(i, ('chunk', o))
                    yield stream[o:o + c]
                    o += c
            try:
                ret = comp.decompress(feeder(), out)
                res[i] = (ret, big[G:G + len(pay)].tobytes(), None)
            except Exception as e:
                res[i] = (None, None, f'{type(e).__name__}: {e}')
        rt.regions.append(twin.Region(0, 2, 'interleave'))
        sch.run_region(rt, 2, body)
        return sch, res
    for item in twin.explore(run_one, case['bound'], max_exec=5000):
        if item[0] == 'CAPPED':
            break
        choices, pre, res = item
        nexec += 1
        ok = all(r is not None and r[2] is None and r[0] == len(streams[i][1]) and r[1] == streams[i][1] for i, r in enumerate(res))
        outcomes.add(ok)
        if not ok and not notes:
            notes.append(dict(sig='interleave:concurrent-calls-on-one-object', msg=f'schedule {choices} ({pre} preemptions) of two decompress calls sharing one compressor object: results {[(r[0], r[2]) if r else None for r in res]}'))
    return dict(problems=probs, evals=nexec, traces=nexec, states=nexec, transitions=nexec * sum(len(p) for p in plans), nt=[('interleave', case['bound'])],
                extra=dict(interleaved_schedules=nexec, interleaved_calls_interfere=len(notes)))


def run_typedout(case):
    """the output buffer handed to decompress may be any contiguous buffer (typed, N-d), not only bytes"""
    from abacusnbody.data.asdf import BloscCompressor
    probs = []
    n = 0
    for spec in (dict(nitems=12, itemsize=8, cbs=24), dict(nitems=9, itemsize=4, cbs=8)):
        stream, pay, bounds = make_stream(spec)
        L = len(stream)
        dt = {8: 'f8', 4: 'i4'}[spec['itemsize']]
        for shape in ((spec['nitems'],), (spec['nitems'] // 3, 3)):
            for chunks in ([L], [7] * (L // 7) + ([L % 7] if L % 7 else []), [L // 2, L - L // 2], [1] * L):
                arr = np.zeros(shape, dtype=dt)
                o = 0
                blocks = []
                for c in chunks:
                    blocks.append(stream[o:o + c]); o += c
                try:
                    ret = BloscCompressor().decompress(iter(blocks), memoryview(arr))
                    err = None
                except Exception as e:
                    ret, err = None, f'{type(e).__name__}: {e}'
                n += 1
                if err or ret != len(pay) or arr.tobytes() != pay:
                    probs.append(dict(sig='typedout:differs', msg=f'{stream_desc(spec)} into a {dt}{shape} buffer, chunks of {chunks[:2]}..: ret={ret} err={err}'))
    return dict(problems=probs[:3], evals=n, traces=n, states=n, transitions=n, nt=[('typedout', n)], extra=dict(typed_output_runs=n))


def run_bigframe(case):
    import zlib
    probs = []
    n = 0
    for nitems, isz, cbs in ((9000, 8, 1 << 22), (70000, 1, 1 << 22), (40000, 4, 50000)):
        # incompressible-ish payload so the compressed frame stays long
        rs = np.random.RandomState(12345 + nitems)
        pay = rs.randint(0, 256, nitems * isz, dtype=np.uint8).tobytes()
        arr = np.frombuffer(pay, dtype={1: 'u1', 4: 'u4', 8: 'u8'}[isz])
        from abacusnbody.data.asdf import BloscCompressor
        stream = b''.join(bytes(f) for f in BloscCompressor().compress(memoryview(arr), compression_block_size=cbs))
        frames = [struct.pack('!I', len(f)) + f for f in split_frames(stream)]
        L = len(stream)
        if cbs > 65536 and max(len(f) for f in frames) <= 65536:
            probs.append(dict(sig='harness:bigframe-too-small', msg=f'largest frame {max(len(f) for f in frames)}'))
        first = len(frames[0])
        plans = [[L], [1, L - 1], [3, L - 3], [4, L - 4], [5, L - 5], [first - 1, L - first + 1], [first, L - first] if L > first else [L],
                 [first + 2, L - first - 2] if L > first + 2 else [L], [65536] * (L // 65536) + ([L % 65536] if L % 65536 else []),
                 [4096] * (L // 4096) + ([L % 4096] if L % 4096 else []), [L // 2, L - L // 2]]
        for chunks in plans:
            chunks = [c for c in chunks if c > 0]
            obs = Exec(stream, pay).run(chunks)
            n += 1
            if obs['err'] or obs['ret'] != len(pay) or obs['out'] != pay or not obs['guard_ok']:
                probs.append(dict(sig='bigframe:differs', msg=f'{nitems} items x {isz}B, cbs={cbs}, frames {[len(f) for f in frames]}, chunks {chunks[:3]}..: err={obs["err"]} ret={obs["ret"]}'))
    return dict(problems=probs[:3], evals=n, traces=n, states=n, transitions=n, nt=[('bigframe', n)], extra=dict(bigframe_runs=n))


def run(case):
    return {'bigframe': run_bigframe, 'interleave': run_interleave, 'typedout': run_typedout, 'reuse': run_reuse, 'bfs': run_bfs, 'brute': run_brute, 'roundtrip': run_roundtrip, 'asdf': run_asdf}[case['kind']](case)

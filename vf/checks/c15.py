"""C15 - pack9 streams decode one particle per record relative to its cell header.

Entry point: abacusnbody.data.pack9.unpack_pack9 (kernels _unpack_pack9, _expand_to_short), always the real compiled
code.  Reference: vf/c15_ref.py (format written down in its docstring; never calls the code under test).

Layers (each complete for its tier, nothing sampled):

nibp  particle nibble layer.  Stream = one header + a block of particle records in which one 3-byte group runs
      through ALL 2^24 bit patterns (group 0: the 2^16 patterns whose first byte is 0xFF are header records and are
      swept in `nibh`) while the other six bytes are a fixed background.  Every decoded position/velocity is compared
      with the reference; the header is chosen so that the rounding tolerance is < 1/20 quantum, i.e. the comparison
      decides the exact 12-bit field value of every pattern.
nibh  header nibble layer.  Stream = (header, probe particle) pairs in which one 3-byte group of the HEADER runs
      through all its patterns (group 0: 2^16 with first byte 0xFF; groups 1, 2: 2^24): every cells-per-dimension
      1..4047, every velocity scale -48..4047, every cell index -48..4047 in every dimension.
sm    header state machine, explicit state: alphabet {a = header h1, b = header h2, c = header h3 (cpd of h1, other velocity scale), x = particle p1, y = particle p2},
      ALL sequences up to depth 5 (quick) / 7 (thorough) including the empty stream and particle-before-header.
      A state is a history (node of the history tree); its abstraction (last header, particles written) is what the
      implementation may remember.  Every history is executed from scratch in every output configuration and compared
      with the sequential reference decoder; the result of the parent history must be a bitwise prefix of it
      (transition check: one symbol adds exactly 0 rows (header) or 1 row (particle) and never rewrites the past).
rt    encode -> decode round trip: cpd in {1, 5, 1875} (thorough adds 2, 4047) x all corner cells x in-cell offset
      alphabet^3 x velocity alphabet^3, one multi-header stream per (cpd, boxsize, velz, dtype, vs).

Output configurations (sm, and rt for the first three): posout/velout each in {returned, not requested (False),
preallocated ndarray with guard rows, preallocated astropy Column as read_asdf passes it}, float32/float64, strided
input.  Requirements: same particle count; position (velocity) bits identical however they were requested for one
float type; float32 vs float64 equal to float32 rounding; preallocated rows beyond the count untouched; input
bytes unmodified.
"""
import itertools

import numpy as np

from vf import c15_ref as ref
from vf import core

PID = 'C15'
LEVEL = 'model_checking'
RULE = ('nibp: header + every one of the 2^24 bit patterns of each 3-byte group of a particle record (first byte != 0xFF) x '
        'backgrounds of the other six bytes (quick 1, thorough 4) x float types (quick f32, thorough f32+f64); '
        'nibh: every pattern of each 3-byte group of a header record (2^16 + 2 x 2^24) each followed by a probe particle '
        '(quick 1 background f32, thorough 4 backgrounds f32+f64), cells-per-dimension <= 0 excluded; '
        'sm: all sequences over {h1,h2,p1,p2} to depth 5 (quick) / 7 (thorough) incl. empty and particle-before-header, each run '
        'from scratch in 16 output configurations + its parent history; states = histories, transitions = tree edges, '
        'traces = histories whose full decode equals the sequential reference; '
        'rt: cpd {1,5,1875}(+{2,4047}) x corner cells x 7^3 offsets x 5^3 velocities x boxsize x velz x float type; '
        'non-trivial = distinct (layer, group, background, block, dtype) blocks with all field values distinct / '
        'distinct histories containing a particle / distinct round-trip streams')
ASSUMPTIONS = [
    'cells per dimension >= 1 (a header with cpd <= 0 has no meaning; cpd = 0 raises ZeroDivisionError in the kernel and is not judged)',
    'the empty stream is an array of shape (0, 9); an empty Python list (shape (0,)) is not a record stream',
    'rounding tolerance: 6 eps x (|cell-centre term| + boxsize/2 + |offset|) for positions, 6 eps x |v| for velocities, eps of the requested float type',
    'a particle before any header has no reference cell: either all six outputs are NaN (compared as is-NaN) or the call refuses the stream with ValueError/AssertionError; both accepted',
    'an output that was not requested (False) comes back as 0 or None',
    'arrays preallocated in the other float type than float_dtype are held to float32 rounding and not to bitwise equality',
    'read_asdf integration (file -> table) belongs to C16; here the kernel is driven through unpack_pack9 with the same argument forms',
]
CHUNK = 1
WORKERS = 8
ISOLATE_REPRO = True

BOX = 2000.0
VELZ = 1234.5
NIB_HDR = dict(cpd=5, vs=1234, cell=(1, 4, 2))
BLOCKS = 32                      # a 2^24 sweep is cut into 32 blocks of 2^19 patterns
PROBE = [1000, -1000, 7, 2047, -2048, 1]
SM = dict(a=dict(cpd=5, vs=1200, cell=(0, 4, 2), junk=0), b=dict(cpd=1875, vs=37, cell=(1874, 0, 937), junk=15),
          c=dict(cpd=5, vs=311, cell=(3, 1, 0), junk=3),      # same cells-per-dimension as a, another velocity scale and cell

          x=[-1000, 1000, 0, 2047, -2048, 1], y=[999, -1, 123, -777, 0, 2000])
SENT = -7.25
GUARD = 2


def particle_backgrounds():
    bgs = [[0x00] * 9, [0xFE] + [0xFF] * 8, [0xA5, 0x5A] * 4 + [0xA5], [0x0F, 0xF0, 0x3C] * 3]
    return [np.array(b, dtype=np.uint8) for b in bgs]


def header_backgrounds():
    return [ref.header_record(5, 1234, (1, 4, 2), junk=0), ref.header_record(1875, 4047, (1874, 0, 937), junk=15),
            ref.header_record(1, -48, (0, 0, 0), junk=5), ref.header_record(4047, 1, (4047, -48, 2000), junk=10)]


def depth(tier):
    return 5 if tier == 'quick' else 7


def rt_grid(tier):
    cpds = [1, 5, 1875] if tier == 'quick' else [1, 2, 5, 1875, 4047]
    boxes = [2000.0, 1234.567] if tier == 'quick' else [2000.0, 1234.567, 1.0]
    velzs = [1000.0] if tier == 'quick' else [1000.0, 2997.92458]
    return cpds, boxes, velzs


def cases(tier, seed):
    q = tier == 'quick'
    yield dict(layer='sm', seqs=[''])
    yield dict(layer='conc')      # two decodes at the same time must not share any module-level state
    # streams far longer than anything above (several million records): decoding is per cell, so the k-th copy of a short
    # stream decodes exactly like the first wherever it sits in a long one
    for copies in ([450000] if q else [450000, 780001]):
        yield dict(layer='long', copies=copies, dt='f4')
    # state machine first (simplest first): histories grouped by (length, first symbols) so a task is >= 50 ms
    D = depth(tier)
    for L in range(1, D + 1):
        grp = max(0, L - 3)     # 64 histories per case
        for pre in itertools.product('abcxy', repeat=grp):
            yield dict(layer='sm', seqs=[''.join(pre) + ''.join(t) for t in itertools.product('abcxy', repeat=L - grp)])
    cpds, boxes, velzs = rt_grid(tier)
    for cpd in cpds:
        for box in boxes:
            for velz in velzs:
                for dt in ('f4', 'f8'):
                    yield dict(layer='rt', cpd=cpd, box=box, velz=velz, dt=dt)
    for dt in (['f4'] if q else ['f4', 'f8']):
        for bg in range(1 if q else 4):
            for g in range(3):
                for blk in range(BLOCKS):
                    yield dict(layer='nibp', g=g, bg=bg, blk=blk, dt=dt)
        for bg in range(1 if q else 4):
            yield dict(layer='nibh', g=0, bg=bg, blk=0, dt=dt)
            for g in (1, 2):
                for blk in range(BLOCKS):
                    yield dict(layer='nibh', g=g, bg=bg, blk=blk, dt=dt)


def BOUNDS(tier):
    q = tier == 'quick'
    return dict(sm_depth=depth(tier), sm_alphabet=5, nibp_backgrounds=1 if q else 4, nibh_backgrounds=1 if q else 4,
                nibble_float_types=1 if q else 2, rt_grid=rt_grid(tier))


def selfcheck():
    ref.selfcheck()
    # the nibble-layer headers make the tolerance decide the exact field value
    q = ref.QUANT * BOX / NIB_HDR['cpd']
    assert 6 * np.finfo(np.float32).eps * (BOX * 2 + 2048 * q) < q / 20
    assert SM['a']['cpd'] != SM['b']['cpd'] and SM['a']['vs'] != SM['b']['vs']
    assert all(u != v for u, v in zip(SM['a']['cell'], SM['b']['cell'])) and all(u != v for u, v in zip(SM['x'], SM['y']))


# --------------------------------------------------------------------------------------------- driving the real code
_FN = None


def worker_init():
    global _FN
    from abacusnbody.data.pack9 import unpack_pack9
    _FN = unpack_pack9


DT = dict(f4=np.float32, f8=np.float64)


def orphan_particle(data):
    """does a particle record precede the first header record of the stream?"""
    for rec in np.asarray(data).reshape(-1, 9):
        if rec[0] == 0xFF:
            return False
        return True
    return False


def call(data, box, velz, dt, pmode='ret', vmode='ret'):
    """one execution of unpack_pack9.  modes: ret (None -> returned), off (False), pre (ndarray with guard rows),
    col (astropy Column of a Table, as read_asdf does).  Returns dict(pos, vel, n, problems)."""
    if _FN is None:
        worker_init()
    dtype = DT[dt]
    N = len(data)
    keep = data.copy()
    probs = []
    bufs = {}
    args = {}
    for name, mode in (('posout', pmode), ('velout', vmode)):
        if mode == 'ret':
            args[name] = None
        elif mode == 'off':
            args[name] = False
        elif mode == 'pre':
            bufs[name] = np.full((N + GUARD, 3), SENT, dtype=dtype)
            args[name] = bufs[name]
        elif mode == 'preo':      # preallocated in the OTHER float type than float_dtype: the caller's array must still be filled
            bufs[name] = np.full((N + GUARD, 3), SENT, dtype=(np.float64 if dtype is np.float32 else np.float32))
            args[name] = bufs[name]
        elif mode == 'half':      # non C-contiguous caller memory: one half of a shared (N, 6) phase-space buffer
            if 'shared' not in bufs:
                bufs['shared'] = np.full((N + GUARD, 6), SENT, dtype=dtype)
            bufs[name] = bufs['shared'][:, :3] if name == 'posout' else bufs['shared'][:, 3:]
            args[name] = bufs[name]
        elif mode == 'fort':      # Fortran-ordered caller memory
            bufs[name] = np.asfortranarray(np.full((N + GUARD, 3), SENT, dtype=dtype))
            args[name] = bufs[name]
        elif mode == 'skip':      # every other row of a taller array
            bufs[name + '_tall'] = np.full((2 * (N + GUARD), 3), SENT, dtype=dtype)
            bufs[name] = bufs[name + '_tall'][::2]
            args[name] = bufs[name]
        elif mode == 'col':
            from astropy.table import Table
            t = Table()
            t.add_column(np.full((N + GUARD, 3), SENT, dtype=dtype), copy=False, name=name)
            bufs[name] = t[name]
            args[name] = t[name]
    try:
        r = _FN(data, box, velz, float_dtype=dtype, **args)
    except Exception as e:
        st = core.stale_reason(e)
        if st:
            raise core.Stale(st)
        if orphan_particle(data) and isinstance(e, (ValueError, AssertionError)):
            # a particle record before any header has no reference cell; the property says nothing about such streams:
            # NaN rows (checked by the callers when a result comes back) or a refusal are both acceptable
            return dict(pos=None, vel=None, n=None, raised=True, rejected=True, problems=[])
        if 'preo' in (pmode, vmode) and isinstance(e, (ValueError, TypeError, AssertionError)):
            # an output array of another float type than float_dtype: filling it or refusing it are both acceptable
            return dict(pos=None, vel=None, n=None, raised=True, rejected=True, problems=[])
        # the property promises a decode for every other stream in the alphabet
        return dict(pos=None, vel=None, n=None, raised=True,
                    problems=[('raised:' + type(e).__name__, f'unpack_pack9 raised {type(e).__name__}: {str(e)[:300]}')])
    if not (isinstance(r, tuple) and len(r) == 2):
        return dict(pos=None, vel=None, n=None, problems=[('return-shape', f'returned {type(r).__name__} {r!r:.200}')])
    out = {}
    ns = []
    for name, mode, val in (('posout', pmode, r[0]), ('velout', vmode, r[1])):
        if mode == 'ret':
            if not (isinstance(val, np.ndarray) and val.ndim == 2 and val.shape[1] == 3 and val.dtype == dtype):
                probs.append(('return-shape', f'{name}: returned {type(val).__name__} shape {getattr(val, "shape", None)} dtype {getattr(val, "dtype", None)}'))
                out[name] = None
            else:
                out[name] = np.array(val)
                ns.append(len(val))
        elif mode == 'off':
            out[name] = None
            # nothing was requested, so nothing meaningful comes back: 0 (today) or None are both "no result"
            if not (val is None or (isinstance(val, (int, np.integer)) and not isinstance(val, bool) and val == 0)):
                probs.append(('return-shape', f'{name}=False: returned {val!r:.100} for an output that was not requested (expected 0 or None)'))
        else:
            if not isinstance(val, (int, np.integer)) or not 0 <= val <= N:
                probs.append(('return-shape', f'{name} preallocated: returned {val!r:.100} instead of the particle count'))
                out[name] = None
            else:
                b = np.asarray(bufs[name])
                ns.append(int(val))
                out[name] = np.ascontiguousarray(b[:val]).astype(dtype)
                rest = b[val:]
                if not (rest == SENT).all():
                    bad = np.nonzero((rest != SENT).any(axis=1))[0] + int(val)
                    probs.append(('prealloc-guard', f'{name}: rows {bad[:5].tolist()} beyond the returned count {int(val)} were written'))
    if not np.array_equal(data, keep):
        probs.append(('input-modified', 'the record stream was modified'))
    n = ns[0] if ns else None
    if len(set(ns)) > 1:
        probs.append(('count-mismatch', f'position and velocity counts differ: {ns}'))
        n = None
    return dict(pos=out['posout'], vel=out['velout'], n=n, problems=probs, raised=False)


def compare(got, exp, mag, eps, what):
    """got vs float64 reference with tolerance 6 eps mag; NaN must match NaN.  returns None or (index, text)"""
    if got.shape != exp.shape:
        return (-1, f'{what}: shape {got.shape} expected {exp.shape}')
    g = got.astype(np.float64)
    nan_e = np.isnan(exp)
    nan_g = np.isnan(g)
    bad = nan_e != nan_g
    with np.errstate(invalid='ignore'):
        bad |= ~nan_e & ~nan_g & ~(np.abs(g - exp) <= 6 * eps * mag)
    if bad.any():
        i, d = (int(v) for v in np.argwhere(bad)[0])
        return (i, f'{what}[{i},{d}] = {g[i, d]!r} expected {exp[i, d]!r} (tolerance {6 * eps * mag[i, d]:.3g}); {int(bad.any(axis=1).sum())} of {len(g)} rows differ')
    return None


def bits_equal(a, b):
    return a.shape == b.shape and a.dtype == b.dtype and np.array_equal(np.ascontiguousarray(a).view(np.uint8), np.ascontiguousarray(b).view(np.uint8)) if a.size else a.shape == b.shape


def ndistinct(k):
    k = np.sort(k)
    return int(len(k) > 0) + int(np.count_nonzero(k[1:] != k[:-1]))


def group_patterns(g, lo, hi, background, first_byte=None):
    """records whose group g takes patterns lo..hi-1 (24-bit), other bytes = background"""
    t = np.arange(lo, hi, dtype=np.int64)
    R = np.tile(background, (len(t), 1))
    R[:, 3 * g] = t >> 16 if first_byte is None else first_byte
    R[:, 3 * g + 1] = (t >> 8) & 255
    R[:, 3 * g + 2] = t & 255
    return R


# --------------------------------------------------------------------------------------------- layers
def run_nibp(c):
    g, dt = c['g'], c['dt']
    eps = float(np.finfo(DT[dt]).eps)
    per = (1 << 24) // BLOCKS
    R = group_patterns(g, c['blk'] * per, (c['blk'] + 1) * per, particle_backgrounds()[c['bg']])
    R = R[R[:, 0] != 0xFF]
    if len(R) == 0:
        return dict(problems=[], evals=0, extra=dict(nibp_header_patterns_left_to_nibh=per))
    hdr = ref.header_record(**NIB_HDR).reshape(1, 9)
    data = np.concatenate([hdr, R])
    e = ref.decode(data, BOX, VELZ)
    r = call(data, BOX, VELZ, dt)
    probs = [dict(sig=f'nibp:g{g}:{s}', msg=f'{c}: {m}') for s, m in r['problems']]
    if r['n'] is None:
        pass
    elif r['n'] != len(R):
        probs.append(dict(sig=f'nibp:g{g}:count', msg=f'{c}: {r["n"]} particles from 1 header + {len(R)} particle records'))
    else:
        for what, k, mk in (('pos', 'pos', 'posmag'), ('vel', 'vel', 'velmag')):
            bad = compare(r[k], e[k], e[mk], eps, what) if r[k] is not None else None
            if bad:
                i = bad[0]
                probs.append(dict(sig=f'nibp:g{g}:{what}', msg=f'{c}: record bytes {data[i + 1].tolist()} (fields-2048 = {(ref.unpack_fields(data[i + 1]) - 2048).tolist()}) after header {NIB_HDR}: {bad[1]}'))
    F = ref.unpack_fields(R)[:, 2 * g:2 * g + 2].astype(np.int64)
    ndist = ndistinct(F[:, 0] * 4096 + F[:, 1])
    i = len(R) // 3
    return dict(problems=probs, evals=1, nt=[f'nibp:{g}:{c["bg"]}:{c["blk"]}:{dt}'] if ndist == len(R) else [],
                extra=dict(nibp_records=len(R), nibp_distinct_field_pairs=ndist,
                           nibp_header_patterns_left_to_nibh=per - len(R)),
                sample=dict(layer='nibp', bytes=data[i + 1].tolist(), pos=r['pos'][i].tolist(), vel=r['vel'][i].tolist(),
                            ref_pos=e['pos'][i].tolist(), ref_vel=e['vel'][i].tolist())
                if (c['blk'] == 11 and c['bg'] == 0 and g == 1 and not probs) else None)


def run_nibh(c):
    g, dt = c['g'], c['dt']
    eps = float(np.finfo(DT[dt]).eps)
    bg = header_backgrounds()[c['bg']]
    if g == 0:
        H = group_patterns(0, 0, 1 << 16, bg, first_byte=0xFF)
    else:
        per = (1 << 24) // BLOCKS
        H = group_patterns(g, c['blk'] * per, (c['blk'] + 1) * per, bg)
    total = len(H)
    cpd = ref.unpack_fields(H)[:, 1] - 48
    H = H[cpd >= 1]
    data = np.empty((2 * len(H), 9), dtype=np.uint8)
    data[0::2] = H
    data[1::2] = ref.particle_records(PROBE)
    e = ref.decode(data, BOX, VELZ)
    r = call(data, BOX, VELZ, dt)
    probs = [dict(sig=f'nibh:g{g}:{s}', msg=f'{c}: {m}') for s, m in r['problems']]
    if r['n'] is None:
        pass
    elif r['n'] != len(H):
        probs.append(dict(sig=f'nibh:g{g}:count', msg=f'{c}: {r["n"]} particles from {len(H)} (header, particle) pairs'))
    else:
        for what, k, mk in (('pos', 'pos', 'posmag'), ('vel', 'vel', 'velmag')):
            bad = compare(r[k], e[k], e[mk], eps, what) if r[k] is not None else None
            if bad:
                i = bad[0]
                f = ref.unpack_fields(data[2 * i]) - 48
                probs.append(dict(sig=f'nibh:g{g}:{what}', msg=f'{c}: header bytes {data[2 * i].tolist()} (cpd {f[1]}, vs {f[2]}, cell {f[3:].tolist()}) then particle {PROBE}: {bad[1]}'))
    F = ref.unpack_fields(H).astype(np.int64)
    key = F[:, 1] if g == 0 else F[:, 2 * g] * 4096 + F[:, 2 * g + 1]
    ndist = ndistinct(key)
    want = len(H) // 16 if g == 0 else len(H)      # group 0: the unused low nibble of field 0 multiplies each cpd by 16
    i = len(H) // 3
    return dict(problems=probs, evals=1, nt=[f'nibh:{g}:{c["bg"]}:{c["blk"]}:{dt}'] if ndist == want else [],
                extra=dict(nibh_headers=len(H), nibh_distinct_header_values=ndist, nibh_cpd_le0_excluded=total - len(H)),
                sample=dict(layer='nibh', header_bytes=data[2 * i].tolist(), probe=PROBE, pos=r['pos'][i].tolist(), vel=r['vel'][i].tolist(),
                            ref_pos=e['pos'][i].tolist(), ref_vel=e['vel'][i].tolist())
                if (c['blk'] == 7 and c['bg'] == 0 and g == 2 and not probs) else None)


# output configurations: (tag, float type, pos mode, vel mode, strided input)
CONFIGS = [('both', 'f4', 'ret', 'ret', False), ('both', 'f8', 'ret', 'ret', False),
           ('pos-only', 'f4', 'ret', 'off', False), ('vel-only', 'f4', 'off', 'ret', False),
           ('pos-only', 'f8', 'ret', 'off', False), ('vel-only', 'f8', 'off', 'ret', False),
           ('prealloc', 'f4', 'pre', 'pre', False), ('prealloc', 'f8', 'pre', 'pre', False),
           ('prealloc-pos', 'f4', 'pre', 'ret', False), ('prealloc-vel-only', 'f8', 'off', 'pre', False),
           ('column', 'f4', 'col', 'col', False), ('strided', 'f4', 'ret', 'ret', True),
           ('prealloc-halves', 'f4', 'half', 'half', False), ('prealloc-fortran', 'f8', 'fort', 'fort', False),
           ('prealloc-everyother', 'f4', 'skip', 'skip', False), ('prealloc-f8-array-for-f4', 'f4', 'preo', 'preo', False)]
RT_CONFIGS = 3


def sm_stream(seq):
    recs = []
    for ch in seq:
        recs.append(ref.header_record(**SM[ch]) if ch in 'abc' else ref.particle_records(SM[ch]))
    return np.stack(recs) if recs else np.zeros((0, 9), dtype=np.uint8)


def run_configs(data, box, velz, exp, configs, label, sigp):
    """run every configuration; compare each with the reference and all with each other.  returns (problems, evals, results)"""
    probs = []
    res = {}
    base = {}
    for tag, dt, pm, vm, strided in configs:
        d = data
        if strided:
            big = np.full((2 * len(data) + 1, 11), 0xFF, dtype=np.uint8)
            big[1::2, 1:10] = data
            d = big[1::2, 1:10]
            assert d.shape == data.shape and (len(d) < 2 or not d.flags.c_contiguous)
        r = call(d, box, velz, dt, pm, vm)
        res[(tag, dt)] = r
        eps = float(np.finfo(DT[dt]).eps)
        # arrays preallocated in the other float type: the values may legitimately be computed in either precision
        # ("float type beyond rounding"), so they are held to the coarser rounding and are not part of the bitwise group
        other = 'preo' in (pm, vm)
        if other:
            eps = float(np.finfo(np.float32).eps)
        for s, m in r['problems']:
            probs.append(dict(sig=f'{sigp}:{tag}:{s}', msg=f'{label} [{tag} {dt}]: {m}'))
        if r.get('rejected'):
            continue
        if r['n'] is None and (pm, vm) != ('off', 'off'):
            if not r['problems']:
                probs.append(dict(sig=f'{sigp}:{tag}:count', msg=f'{label} [{tag} {dt}]: no particle count obtained'))
            continue
        if r['n'] is not None and r['n'] != exp['n']:
            probs.append(dict(sig=f'{sigp}:{tag}:count', msg=f'{label} [{tag} {dt}]: {r["n"]} particles, expected {exp["n"]} (one per non-header record)'))
            continue
        for what, mk in (('pos', 'posmag'), ('vel', 'velmag')):
            if r[what] is None:
                continue
            bad = compare(r[what], exp[what], exp[mk], eps, what)
            if bad:
                nanrow = bool(exp['nohdr'][bad[0]]) if bad[0] >= 0 else False
                probs.append(dict(sig=f'{sigp}:{tag}:{what}' + (':nan' if nanrow else ''), msg=f'{label} [{tag} {dt}]: {bad[1]}'))
            # however requested, the same float type must give the same bits
            if other:
                continue
            b = base.setdefault((what, dt), (tag, r[what]))
            if b[0] != tag and not bits_equal(b[1], r[what]):
                probs.append(dict(sig=f'{sigp}:select:{what}', msg=f'{label}: {what} [{tag} {dt}] differs bitwise from [{b[0]} {dt}]'))
    # float32 vs float64 to float32 rounding
    a, b = res.get(('both', 'f4')), res.get(('both', 'f8'))
    if a and b and a['n'] is not None and a['n'] == b['n'] == exp['n'] and not (a.get('rejected') or b.get('rejected')):
        for what, mk in (('pos', 'posmag'), ('vel', 'velmag')):
            if a[what] is None or b[what] is None:
                continue
            bad = compare(a[what], b[what].astype(np.float64), exp[mk], float(np.finfo(np.float32).eps), what)
            if bad:
                probs.append(dict(sig=f'{sigp}:dtype:{what}', msg=f'{label}: float32 vs float64: {bad[1]}'))
    return probs, len(configs), res


def nan_rows(seq):
    """particles before the first header"""
    n = 0
    for ch in seq:
        if ch in 'abc':
            break
        n += 1
    return n


def run_sm(c):
    probs = []
    evals = 0
    nt = []
    absstates = set()
    traces = 0
    trans = 0
    rejected = 0
    nanrows = 0
    sample = None
    for seq in c['seqs']:
        data = sm_stream(seq)
        lst, st = ref.decode_sequential(data.tolist(), BOX, VELZ)
        n = len(lst)
        pos = np.array([p for p, _ in lst], dtype=np.float64).reshape(n, 3)
        vel = np.array([v for _, v in lst], dtype=np.float64).reshape(n, 3)
        vec = ref.decode(data, BOX, VELZ)
        assert vec['n'] == n == sum(ch in 'xy' for ch in seq)
        exp = dict(n=n, pos=pos, vel=vel, posmag=vec['posmag'], velmag=np.abs(vel), nohdr=vec['nohdr'])
        p, e, res = run_configs(data, BOX, VELZ, exp, CONFIGS, f'sequence {seq!r} (a,b = headers {SM["a"]}, {SM["b"]}; x,y = particles {SM["x"]}, {SM["y"]})', 'sm')
        # both outputs not requested: nothing to return, must not fail
        r0 = call(data, BOX, VELZ, 'f4', 'off', 'off')
        e += 1
        p += [dict(sig=f'sm:none:{s}', msg=f'sequence {seq!r} [no output requested]: {m}') for s, m in r0['problems']]
        # transition check against the parent history
        if seq:
            par = call(sm_stream(seq[:-1]), BOX, VELZ, 'f4')
            e += 1
            cur = res[('both', 'f4')]
            if None not in (par['n'], cur['n']) and all(u[k] is not None for u in (par, cur) for k in ('pos', 'vel')):
                step = 1 if seq[-1] in 'xy' else 0
                if cur['n'] != par['n'] + step:
                    p.append(dict(sig='sm:transition:count', msg=f'history {seq[:-1]!r} gives {par["n"]} particles, appending {seq[-1]!r} gives {cur["n"]}'))
                elif not (bits_equal(cur['pos'][:par['n']], par['pos']) and bits_equal(cur['vel'][:par['n']], par['vel'])):
                    p.append(dict(sig='sm:transition:prefix', msg=f'appending {seq[-1]!r} to history {seq[:-1]!r} changed earlier rows'))
            trans += 1
        probs += p
        evals += e
        hdr = next((ch for ch in reversed(seq) if ch in 'abc'), '-')
        assert (st is None) == (hdr == '-') and (st is None or st[0] == SM[hdr]['cpd'])
        absstates.add(f'{hdr}:{n}')
        rej = sum(1 for r in list(res.values()) + [r0] if r.get('rejected'))
        if rej:
            rejected += 1
        elif not p:
            traces += 1
            nanrows += nan_rows(seq)
        if n:
            nt.append('sm:' + seq)
        if seq == 'xayb' + 'x' * (len(seq) - 4) and len(seq) >= 5 and not p and not rej:
            sample = dict(layer='sm', sequence=seq, pos=res[('both', 'f4')]['pos'].tolist(), ref_pos=pos.tolist(),
                          vel=res[('both', 'f4')]['vel'].tolist(), ref_vel=vel.tolist())
    return dict(problems=probs, evals=evals, nt=nt, states=len(c['seqs']), transitions=trans, traces=traces,
                extra=dict(sm_histories=len(c['seqs']), sm_abstract_states=sorted(absstates),
                           sm_nan_rows_checked=nanrows, sm_orphan_particle_streams_refused_by_code=rejected),
                sample=sample)


OFFS = [-0.5, -0.49976, -0.250251, 0.0, 1 / 3, 0.49999, 0.5]      # in-cell offsets in cell sizes
VELS = [-1.0, -0.33333, 0.0, 0.00024, 1.0]                        # velocities in units of the largest encodable one


def run_rt(c):
    cpd, box, velz, dt = c['cpd'], c['box'], c['velz'], c['dt']
    eps = float(np.finfo(DT[dt]).eps)
    csize = box / cpd
    corners = sorted(set(itertools.product({0, cpd - 1}, repeat=3)))
    vs = {1: 4047, 2: 1, 5: 1200, 1875: 37, 4047: 2500}[cpd]
    vq = vs * ref.QUANT / cpd * velz
    vmax = 2047 * vq
    off = np.array(list(itertools.product(OFFS, repeat=3)))
    vv = np.array(list(itertools.product(VELS, repeat=3))) * vmax
    xs, vels = [], []
    for cell in corners:
        centre = (np.array(cell) + 0.5) * csize - box / 2
        x = centre + off * csize
        x = np.clip(x, -box / 2, box / 2)
        i, j = np.meshgrid(np.arange(len(x)), np.arange(len(vv)), indexing='ij')
        xs.append(x[i.ravel()])
        vels.append(vv[j.ravel()])
    x = np.concatenate(xs)
    v = np.concatenate(vels)
    data, order, ncell = ref.encode(x, v, box, velz, cpd, vs)
    x, v = x[order], v[order]
    e = ref.decode(data, box, velz)
    exp = dict(n=len(x), pos=e['pos'], vel=e['vel'], posmag=e['posmag'], velmag=e['velmag'], nohdr=e['nohdr'])
    cfg = [(t, dt, pm, vm, s) for (t, _, pm, vm, s) in (CONFIGS[0], CONFIGS[2], CONFIGS[6])]
    label = f'round trip {c} ({len(x)} particles in {ncell} cell runs, vs={vs})'
    probs, evals, res = run_configs(data, box, velz, exp, cfg, label, 'rt')
    r = res[('both', dt)]
    worst = [0.0, 0.0]
    if r['n'] == len(x) and r['pos'] is not None and r['vel'] is not None:
        # the property itself: what was encoded comes back within one quantum (our encoder rounds to nearest, so half
        # a quantum plus rounding is what an exact decoder gives; one quantum is the stated limit)
        qp = ref.QUANT * csize
        dp = np.abs(r['pos'].astype(np.float64) - x)
        dv = np.abs(r['vel'].astype(np.float64) - v)
        tolp = 6 * eps * e['posmag']
        tolv = 6 * eps * e['velmag']
        for what, d, q, tol in (('pos', dp, qp, tolp), ('vel', dv, vq, tolv)):
            bad = ~(d <= 0.5 * q * (1 + 1e-9) + tol)
            if bad.any():
                i, k = (int(u) for u in np.argwhere(bad)[0])
                src = (x if what == 'pos' else v)[i, k]
                lim = 'MORE THAN ONE quantum' if d[i, k] > q + tol[i, k] else 'more than half a quantum (exact decode of the nearest code)'
                probs.append(dict(sig=f'rt:{what}:quantum', msg=f'{label}: {what}[{i},{k}] encoded {src!r} decoded {r[what][i, k]!r}: off by {d[i, k] / q:.4f} quanta, {lim}; record {data[np.nonzero(data[:, 0] != 255)[0][i]].tolist()}'))
        worst = [float((dp / qp).max()), float((dv / vq).max())]
    i = len(x) // 2 + 1
    return dict(problems=probs, evals=evals, nt=[f'rt:{cpd}:{box}:{velz}:{dt}'], extra=dict(rt_particles=len(x), rt_headers=ncell),
                max={f'rt_worst_pos_error_milliquanta_{dt}': int(worst[0] * 1000), f'rt_worst_vel_error_milliquanta_{dt}': int(worst[1] * 1000)},
                sample=dict(layer='rt', case=c, x=x[i].tolist(), v=v[i].tolist(), decoded_x=r['pos'][i].tolist(), decoded_v=r['vel'][i].tolist(),
                            pos_quantum=ref.QUANT * csize, vel_quantum=vq)
                if (cpd == 5 and dt == 'f4' and box == 2000.0 and not probs) else None)


def run_conc(c):
    """E-POR over two concurrent calls of the interpreted twin of unpack_pack9 (separate inputs and outputs): the calls must be
    independent, i.e. touch no common module-level array (a scratch buffer hoisted to module scope would be one)"""
    from vf import twin
    from abacusnbody.data import pack9
    rt = twin.Runtime()
    tw = twin.Twins(rt)
    f = tw.twin(pack9.unpack_pack9)
    probs = []
    n = 0
    for seqs in (('axy', 'byx'), ('axayb', 'bx'), ('x', 'ay')):
        streams = [sm_stream(q) for q in seqs]
        for kw in (dict(), dict(float_dtype=np.float64), dict(velout=False)):
            def one(d, kw=kw):
                try:
                    return f(d, BOX, VELZ, **kw)
                except (ValueError, AssertionError):
                    if orphan_particle(d):      # particle before any header: a refusal is acceptable (see call())
                        return None
                    raise
            res, conf = twin.concurrent_calls(rt, [(lambda d=d: one(d)) for d in streams])
            n += 1
            for cf in conf[:1]:
                probs.append(dict(sig='conc:shared-module-state', msg=f'two concurrent unpack_pack9 calls ({seqs}, {kw}) both access {cf[0]} element {cf[2]} ({cf[1]})'))
    seen = set()
    probs = [p for p in probs if not (p['sig'] in seen or seen.add(p['sig']))]
    return dict(problems=probs, evals=n, nt=['conc'], states=0, transitions=0, traces=0, extra=dict(concurrent_call_pairs=n))


def run_long(c):
    short = sm_stream('axyxxyybxyyxcy')          # 3 cells of 6, 4 and 1 particles: 14 records, no power of two
    box, velz = 2000.0, 123.5
    one = call(short, box, velz, c['dt'])
    probs = [dict(sig='long:' + a, msg='short stream: ' + b) for a, b in one['problems']]
    if one['pos'] is None or one['vel'] is None:
        return dict(problems=probs, evals=1, nt=[], states=0, transitions=0, traces=0)
    T = c['copies']
    data = np.ascontiguousarray(np.tile(short, (T, 1)))
    got = call(data, box, velz, c['dt'])
    probs += [dict(sig='long:' + a, msg=f'{len(data)} records: ' + b) for a, b in got['problems']]
    if got['pos'] is not None and got['vel'] is not None:
        for name in ('pos', 'vel'):
            g, e = got[name], np.tile(one[name], (T, 1))
            if g.shape != e.shape:
                probs.append(dict(sig=f'long:{name}:count', msg=f'{len(data)} records ({T} copies of a {len(short)}-record stream): {len(g)} particles decoded, expected {len(e)}'))
            elif not np.array_equal(g, e, equal_nan=True):
                row = int(np.argmax(~((g == e) | (np.isnan(g) & np.isnan(e))).all(axis=1)))
                probs.append(dict(sig=f'long:{name}', msg=f'{len(data)} records ({T} copies of a {len(short)}-record stream): particle {row} (copy {row // len(one[name])}) decodes to {g[row].tolist()}, in the short stream to {e[row].tolist()}'))
    return dict(problems=probs, evals=2, nt=[('long', T)], states=0, transitions=0, traces=0, extra=dict(long_stream_records=len(data)))


def run(case):
    return dict(long=run_long, conc=run_conc, sm=run_sm, rt=run_rt, nibp=run_nibp, nibh=run_nibh)[case['layer']](case)


def finalize(agg, tier):
    """the measured totals must be the closed-form sizes of the stated spaces"""
    q = tier == 'quick'
    D = depth(tier)
    nd = 1 if q else 2
    want = dict(sm_histories=(5 ** (D + 1) - 1) // 4,
                nibp_records=nd * (1 if q else 4) * (3 * (1 << 24) - (1 << 16)),
                nibh_headers=nd * (1 if q else 4) * (2 * (1 << 24) + (1 << 16) - 49 * 16 - 2 * 0))
    out = []
    if agg.extra.get('cases_not_run_after_crash'):
        return out
    for k, v in want.items():
        if agg.extra.get(k) != v:
            out.append(dict(sig='harness:space-size:' + k, msg=f'{k}: measured {agg.extra.get(k)} but the stated space has {v}'))
    if agg.extra.get('nibp_distinct_field_pairs') != agg.extra.get('nibp_records'):
        out.append(dict(sig='harness:space-size:distinct', msg='some particle nibble patterns did not decode (in the reference) to distinct field pairs'))
    if agg.states != want['sm_histories'] or agg.transitions != want['sm_histories'] - 1:
        out.append(dict(sig='harness:space-size:graph', msg=f'states {agg.states} transitions {agg.transitions}'))
    nabs = len(agg.sets.get('sm_abstract_states', ()))
    # abstract states (last header, written): '-' with n = 0..D, a/b with n = 0..D-1
    if nabs != (D + 1) + 3 * D:
        out.append(dict(sig='harness:space-size:abstract', msg=f'{nabs} abstract states reached, expected {(D + 1) + 3 * D}'))
    return out

"""C16 - read_asdf returns exactly the requested particle columns.

Bounded exhaustive enumeration on the real `abacusnbody.data.read_abacus.read_asdf`, on real ASDF files written
under /dev/shm (uncompressed and 'blsc'-compressed):

  file      raw column {rvint, pack9, packedpid, pid} x header {snapshot, no OutputType, AbacusSummit light cone (two
            fraction pairs), light cone of another SimSet} x particle count {0,1,5} x (Box, VelZSpace, ppd) x float type;
            files with one known + an unknown column, with 2..4 known columns, with no known column, with no column
  request   load = None | every subset of the loadable columns of the file type (pos/vel/aux for rvint and pack9 = 8,
            pid/lagr_pos/tagged/density/lagr_idx/aux for PID files = 64) as a tuple and, reversed, as a list |
            load_pos/load_vel in {None,True,False}^2 alone and together with `load` | colname None / explicit
  oracle    column set exactly as requested (documented defaults per type), one row per particle in file order, float
            columns in the requested float type, values equal to a reference decode written from the format
            (vf/refs.py, vf/c16_files.py) and bitwise identical over all requests of the case, no two columns sharing
            memory, meta == file header (+ SubsampleFraction = A+B only for AbacusSummit light cones), file bytes
            untouched, several/no known columns raise unless colname is given.
"""
import itertools
import os
import shutil
import tempfile

import numpy as np

PID = 'C16'
LEVEL = 'exploration'
RULE = ('case = one ASDF file (raw column type x header kind x n in {0,1,5} x units x compression x known/unknown column '
        'mix) x float type; inside a case every request of the alphabet is executed: load in {None, all subsets of the '
        'loadable columns (8 for rvint/pack9, 64 for PID files) in two orders}, load_pos/load_vel in {None,T,F}^2 with and '
        'without load, colname auto/explicit; non-trivial = distinct (file, float type, column name, request) whose read '
        'returned >= 1 column for >= 1 particle and was compared with the reference decode, or that had to raise and did')
ASSUMPTIONS = [
    'deprecated flags (undocumented in the docstring): True = column present, False = absent, None next to an explicit flag = '
    'the complement of that flag, both None = defaults; `load` wins over the flags',
    "'aux' is documented as a PID-derived field: on rvint files it is checked to be the raw words when co-requested with "
    "pos/vel; load=('aux',) alone on rvint/pack9 files (0 rows) is a tolerated convention; on pack9 files the alignment of "
    "'aux' rows with particles is measured (counter) but not required",
    'requests naming columns that are not loadable for the file type (pos on a PID file, pid on an rvint file) are outside the bound',
    'explicit colname of an unknown column is only exercised for names containing "pid" (the only ones whose type is defined)',
    'reference decode tolerances: rvint 4 ulp relative; pack9 pos / lagr_pos 8 eps x max(|value|, BoxSize); pack9 vel 8 ulp; '
    'integers, density, aux exact',
    'an expected failure may be any exception type (ValueError observed)',
    'a request using load_pos/load_vel that is rejected with a TypeError naming the keyword means the deprecated keyword was '
    'removed: the request is skipped (counter requests_skipped_flag_removed), not reported',
]
CHUNK = 1
WORKERS = 12

UNITS = {'A': (32.0, 3200.0, 6.0), 'B': (2000.0, 208774.9025637363, 6912.0000000001), 'C': (500.0, 7.0, 3),
         'D': (123.0, 77.0, (1728 ** 3) ** (1 / 3))}     # D: ppd stored as the cube root of NP, a hair below the integer it means
DT = {'f4': np.float32, 'f8': np.float64}
RVCOLS = ('pos', 'vel', 'aux')
PIDCOLS = ('pid', 'lagr_pos', 'tagged', 'density', 'lagr_idx', 'aux')
DATATYPE = {'rvint': 'rvint', 'pack9': 'pack9', 'packedpid': 'pidlike', 'pid': 'pidlike'}


def BOUNDS(tier):
    return dict(n=[0, 1, 5], float_types=['float32', 'float64'], headers=HEADERS[tier], units_BoxSize_VelZSpace_ppd=UNITS,
                rv_subsets=8, pid_subsets=64, orders=2, flags='{None,True,False}^2', compression=[None, 'blsc'])


HEADERS = {'quick': ['snap', 'lc', 'lcother'], 'thorough': ['snap', 'bare', 'lc', 'lc2', 'lcother']}
UNITSETS = {'quick': ['A'], 'thorough': ['A', 'B', 'C', 'D']}     # quick visits B and C on the light-cone n=5 files only


# ------------------------------------------------------------------------------------------------ cases
def cases(tier, seed):
    thorough = tier != 'quick'
    full = thorough
    k = 0
    # single known column
    for n in (1, 0, 5):
        for hdr in HEADERS[tier]:
            for col in ('rvint', 'pack9', 'packedpid', 'pid'):
                for un in UNITSETS[tier]:
                    for comp in (None, 'blsc'):
                        if comp and not (n == 5 and (thorough or hdr == 'lc')):
                            continue
                        for dt in ('f4', 'f8'):
                            k += 1
                            # `full`: the explicitly named second view of the file also gets the complete request alphabet
                            yield dict(kind='single', cols=[[col, DATATYPE[col], k % 3]], hdr=hdr, n=n, un=un, comp=comp, dt=dt,
                                       full=full and un == 'A')
    # quick: unit sets B and C on the light-cone header only
    if not thorough:
        for un in ('B', 'C', 'D'):
            for col in ('rvint', 'pack9', 'packedpid', 'pid'):
                for dt in ('f4', 'f8'):
                    yield dict(kind='single', cols=[[col, DATATYPE[col], 1]], hdr='lc', n=5, un=un, comp=None, dt=dt, full=False)
    # rvint stored flat
    for n in (1, 5):
        for dt in ('f4', 'f8'):
            yield dict(kind='single', cols=[['rvint', 'rvint', 1]], hdr='snap', n=n, un='A', comp=None, dt=dt, full=False, flat_rvint=True)
    # one known column next to unknown ones: detection must ignore them
    for col in ('rvint', 'pack9', 'packedpid', 'pid'):
        for n in ((5,) if not thorough else (0, 1, 5)):
            for dt in ('f4', 'f8'):
                yield dict(kind='single', cols=[['extra', 'junk', 0], [col, DATATYPE[col], 2], ['zzz', 'rvint', 1]], hdr='lc', n=n, un='A',
                           comp=None, dt=dt, full=False)
    # several known columns
    multis = [('rvint', 'packedpid'), ('rvint', 'pack9'), ('pack9', 'pid'), ('packedpid', 'pid'), ('rvint', 'pid'),
              ('pack9', 'packedpid'), ('rvint', 'pack9', 'packedpid'), ('rvint', 'pack9', 'packedpid', 'pid')]
    for names in multis:
        for n in ((5,) if not thorough else (0, 1, 5)):
            for hdr in (('lc',) if not thorough else ('snap', 'lc')):
                for dt in ('f4', 'f8'):
                    yield dict(kind='multi', cols=[[c, DATATYPE[c], i] for i, c in enumerate(names)], hdr=hdr, n=n, un='A',
                               comp='blsc' if (n == 5 and hdr == 'lc' and dt == 'f8') else None, dt=dt, full=full)
    # no known column
    nones = [[], [['mypid', 'pidlike', 0]], [['rv', 'rvint', 0], ['packedpid_A', 'pidlike', 1]], [['RVINT', 'rvint', 0]],
             [['pack9_B', 'pack9', 0], ['halo_pid', 'pidlike', 2]]]
    for cols in nones:
        for n in ((5,) if not thorough else (0, 1, 5)):
            for dt in ('f4', 'f8'):
                yield dict(kind='none', cols=cols, hdr='snap' if len(cols) % 2 else 'lc', n=n, un='A', comp=None, dt=dt, full=full)


# ------------------------------------------------------------------------------------------------ request alphabet
def subsets(cols):
    for r in range(len(cols) + 1):
        yield from itertools.combinations(cols, r)


FLAGS = [(a, b) for a in (None, True, False) for b in (None, True, False)]


def requests(ctype, full):
    """list of dict(load=..., lp=..., lv=...) for one column type; `full` = the complete alphabet"""
    cols = RVCOLS if ctype in ('rvint', 'pack9') else PIDCOLS
    out = [dict(load=None)]
    for s in subsets(cols):
        out.append(dict(load=tuple(s)))
        if len(s) >= 2:
            out.append(dict(load=list(reversed(s))))
    if not full:
        # reduced alphabet (second and later views of a file): None, singles, full set, empty
        out = [r for r in out if r['load'] is None or len(r['load']) in (0, 1, len(cols))]
    if ctype in ('rvint', 'pack9'):
        for lp, lv in FLAGS:
            if (lp, lv) != (None, None):
                out.append(dict(load=None, lp=lp, lv=lv))
                if full:
                    for ld in (('pos',), ['vel', 'pos'], (), ('vel', 'aux')):
                        out.append(dict(load=ld, lp=lp, lv=lv))
        if not full:
            out.append(dict(load=('pos',), lp=False, lv=True))
    else:
        out.append(dict(load=('pid',), lp=True, lv=True))
        out.append(dict(load=['density', 'aux'], lp=False, lv=None))
    out.append(dict(load=None, verbose=True))
    return out


def expected_columns(ctype, req):
    load, lp, lv = req.get('load'), req.get('lp'), req.get('lv')
    if load is not None:
        return set(load)
    if lp is None and lv is None:
        return {'pos', 'vel'} if ctype in ('rvint', 'pack9') else {'pid'}
    want_pos = lp if lp is not None else (not lv)
    want_vel = lv if lv is not None else (not lp)
    return ({'pos'} if want_pos else set()) | ({'vel'} if want_vel else set())


# ------------------------------------------------------------------------------------------------ execution
def worker_init():
    import warnings
    warnings.filterwarnings('ignore')


def build(case):
    from vf import c16_files as F
    box, velz, ppd = UNITS[case['un']]
    hdr = F.header(case['hdr'], box, velz, ppd)
    n = case['n']
    data, refs_ = {}, {}
    for name, dtype_, salt in case['cols']:
        if dtype_ == 'rvint':
            raw = F.make_rvint(n, salt)
            if case.get('flat_rvint'):
                raw = np.ascontiguousarray(raw).reshape(-1)      # stored flat as (3N,): still N particles
        elif dtype_ == 'pack9':
            raw, _ = F.make_pack9(n, salt)
        elif dtype_ == 'pidlike':
            raw = F.make_pids(n, salt, ppd=int(round(ppd)))
        else:
            raw = np.linspace(0, 1, 2 * n + 1)
        data[name] = raw
        ct = F.coltype_of(name)
        if ct is not None and ct == dtype_:
            refs_[name] = (ct, F.reference(ct, raw.reshape(-1, 3) if (dtype_ == 'rvint' and raw.ndim == 1) else raw, hdr))
    return hdr, data, refs_


def sha(path):
    import hashlib
    with open(path, 'rb') as f:
        return hashlib.sha1(f.read()).hexdigest()


def run(case):
    d = tempfile.mkdtemp(prefix='vf_c16_', dir='/dev/shm')
    try:
        return _run(case, d)
    finally:
        shutil.rmtree(d, ignore_errors=True)


def _run(case, d):
    import contextlib
    import io
    import warnings
    from vf import c16_files as F
    from abacusnbody.data.read_abacus import read_asdf

    hdr, data, refs_ = build(case)
    fn = os.path.join(d, 'particles.asdf')
    F.write(fn, hdr, data, compression=case['comp'])
    h0 = sha(fn)
    dt = DT[case['dt']]
    n = case['n']
    box = float(hdr['BoxSize'])
    emeta = F.expected_meta(hdr)
    known = [c for c in data if c in F.KNOWN]
    auto = known[0] if len(known) == 1 else None
    n0 = ':n0' if n == 0 else ''
    spec = f"file(cols={[c[0] for c in case['cols']]}, hdr={case['hdr']}, n={n}, units={case['un']}, comp={case['comp']}) dtype={case['dt']}"

    probs, nt = [], []
    X = dict(reads=0, reads_returning_table=0, reads_required_to_raise=0, columns_compared=0, values_compared=0,
             corequest_comparisons=0, meta_checks=0, blsc_reads=0, tolerated_aux_only_reads=0, pack9_aux_reads=0,
             pack9_aux_rows_not_particle_aligned=0, empty_table_reads=0, requests_skipped_flag_removed=0)
    X['reads_' + case['kind']] = 0
    errtypes = set()
    first = {}       # (colname, column) -> bytes of the first value seen
    sample = None

    def bad(sig, msg):
        probs.append(dict(sig=sig, msg=f'{spec}: {msg}'))

    def call(colname, req):
        kw = {}
        if 'lp' in req:
            kw['load_pos'] = req['lp']
        if 'lv' in req:
            kw['load_vel'] = req['lv']
        load = req.get('load')
        load = (list(load) if isinstance(load, list) else tuple(load)) if load is not None else None
        X['reads'] += 1
        X['reads_' + case['kind']] += 1
        if case['comp']:
            X['blsc_reads'] += 1
        buf = io.StringIO()
        with warnings.catch_warnings(), contextlib.redirect_stdout(buf):
            warnings.simplefilter('ignore')
            return read_asdf(fn, load=load, colname=colname, dtype=dt, verbose=bool(req.get('verbose')), **kw)

    def rdesc(colname, req):
        return f"read_asdf(colname={colname!r}, load={req.get('load')!r}" + \
            (f", load_pos={req.get('lp')}, load_vel={req.get('lv')}" if ('lp' in req or 'lv' in req) else '') + ')'

    def check_table(t, colname, ct, ref, req, eff):
        nonlocal sample
        what = rdesc(colname, req)
        exp = expected_columns(ct, req)
        got = list(t.colnames)
        X['reads_returning_table'] += 1
        # --- column set
        if len(got) != len(set(got)) or set(got) != exp:
            bad(f'{ct}:columns{n0}', f'{what} returned columns {got}, expected exactly {sorted(exp)}')
        # --- metadata
        X['meta_checks'] += 1
        meta = dict(t.meta)
        if meta != emeta:
            if set(meta) != set(emeta):
                bad(f'meta:keys:{case["hdr"]}', f'{what}: meta keys {sorted(set(meta) ^ set(emeta))} differ from the header')
            else:
                k = [k for k in emeta if not meta[k] == emeta[k]]
                if k == ['SubsampleFraction'] and abs(meta[k[0]] - emeta[k[0]]) <= 4e-16 * abs(emeta[k[0]]):
                    pass
                else:
                    bad(f'meta:value:{k[0]}', f'{what}: meta[{k[0]!r}]={meta[k[0]]!r}, header says {emeta[k[0]]!r}')
        # --- rows
        np_ = ref['n']
        if not exp:
            X['empty_table_reads'] += 1
            if len(t) != 0:
                bad(f'{ct}:rows:no-columns', f'{what}: table without columns has length {len(t)}')
            return
        aux_only = ct in ('rvint', 'pack9') and exp == {'aux'}
        if aux_only and len(t) == 0 and set(got) == exp:
            X['tolerated_aux_only_reads'] += 1
            return
        if len(t) != np_:
            bad(f'{ct}:rows{n0}', f'{what} returned {len(t)} rows, the file holds {np_} particles')
            return
        arrs = {}
        for c in got:
            if c not in exp:
                continue
            a = np.asarray(t[c])
            arrs[c] = a
            # --- dtype
            if c in F.FLOATCOLS and a.dtype != np.dtype(dt):
                bad(f'{ct}:dtype:{c}', f'{what}: column {c} has dtype {a.dtype}, requested float type {np.dtype(dt)}')
            # --- values
            if c == 'aux' and ct == 'pack9':
                X['pack9_aux_reads'] += 1
                rawrows = [bytes(r) for r in np.asarray(data[eff])]
                prt = [rawrows[i] for i in F.p9_ref(data[eff], box, 1.0)[2]]
                if a.shape != (np_, 9) or any(bytes(r) not in rawrows for r in a):
                    bad('pack9:aux:not-raw', f'{what}: aux rows are not raw records of the file')
                elif [bytes(r) for r in a] != prt:
                    X['pack9_aux_rows_not_particle_aligned'] += 1
            elif c == 'aux' and case.get('flat_rvint'):
                pass        # raw words of a flat (3N,) column are not one-per-particle; only pos/vel are defined for this layout
            else:
                r, kind = ref[c]
                X['columns_compared'] += 1
                X['values_compared'] += int(r.size)
                if a.shape != r.shape:
                    bad(f'{ct}:shape:{c}{n0}', f'{what}: column {c} has shape {a.shape}, expected {r.shape}')
                    continue
                if c == 'aux' and a.dtype != r.dtype:
                    bad(f'{ct}:dtype:aux', f'{what}: aux has dtype {a.dtype}, raw column is {r.dtype}')
                if kind == 'exact':
                    if a.dtype.kind not in 'iub' and c not in F.FLOATCOLS:
                        bad(f'{ct}:dtype:{c}', f'{what}: column {c} has non-integer dtype {a.dtype}')
                    ok = (a.astype(np.float64) == r.astype(np.float64)) if c in F.FLOATCOLS else \
                        (a.astype(np.uint64) == r.astype(np.uint64) if c == 'aux' else a.astype(np.int64) == r.astype(np.int64))
                else:
                    eps = float(np.finfo(dt).eps)
                    a64 = a.astype(np.float64)
                    if kind == 'rel':
                        k_ = 4 if ct == 'rvint' else 8
                        tol = k_ * eps * np.maximum(np.abs(r), np.abs(a64)) + 1e-300
                    else:
                        if ct == 'rvint':
                            tol = 4 * eps * np.maximum(np.abs(r), np.abs(a64)) + 1e-300
                        else:
                            tol = 8 * eps * np.maximum(np.abs(r), box)
                    ok = np.abs(a64 - r) <= tol
                ok = np.asarray(ok)
                if not ok.all():
                    i = int(np.argmax(~ok.reshape(len(ok), -1).all(axis=1)))
                    bad(f'{ct}:value:{c}', f'{what}: column {c} row {i} = {a[i].tolist()}, reference decode of particle {i} = {r[i].tolist()} '
                        f'({int((~ok).sum())} of {ok.size} values off)')
            # --- identical over co-requests
            key = (eff, c)      # the auto-detected and the explicitly named view of a column must agree too
            b = (str(a.dtype), a.shape, a.tobytes())
            if key in first:
                X['corequest_comparisons'] += 1
                if first[key][0] != b:
                    bad(f'{ct}:corequest:{c}', f'{what}: column {c} differs from the value returned by {first[key][1]}')
            else:
                first[key] = (b, what)
        # --- columns own their memory
        cs = list(arrs)
        for i in range(len(cs)):
            for j in range(i + 1, len(cs)):
                if arrs[cs[i]].size and np.shares_memory(arrs[cs[i]], arrs[cs[j]]):
                    bad(f'{ct}:shared-memory', f'{what}: columns {cs[i]} and {cs[j]} share memory')
        if np_ >= 1:
            nt.append((case['kind'], [c[0] for c in case['cols']], case['hdr'], n, case['un'], case['comp'], case['dt'], colname,
                       repr(req.get('load')), req.get('lp', '-'), req.get('lv', '-')))
            if sample is None and len(exp) >= 2 and n == 5 and case['hdr'] == 'lc' and req.get('load') is not None:
                sample = dict(case=case, request=what, columns=got, rows=len(t),
                              first_row={c: np.asarray(t[c][0]).tolist() for c in got}, meta_keys=sorted(meta))

    def flag_removed(req, e):
        """the deprecated, undocumented load_pos/load_vel keywords may legitimately be REMOVED (a TypeError that names the
        keyword): such a request no longer exists in the API, so it is skipped and counted, never reported.  Flags that are
        still accepted are checked as before."""
        if ('lp' in req or 'lv' in req) and isinstance(e, TypeError) and ('load_pos' in str(e) or 'load_vel' in str(e)):
            X['requests_skipped_flag_removed'] += 1
            return True
        return False

    def must_raise(req, why):
        X['reads_required_to_raise'] += 1
        try:
            t = call(None, req)
        except Exception as e:
            if flag_removed(req, e):
                X['reads_required_to_raise'] -= 1
                return
            errtypes.add(type(e).__name__)
            nt.append(('raise', [c[0] for c in case['cols']], case['hdr'], n, case['dt'], repr(req.get('load'))))
            return
        bad(f'detect:{why}-not-raised', f'{rdesc(None, req)} on a file with {why} known raw columns {list(data)} returned columns '
            f'{t.colnames} ({len(t)} rows) instead of raising')

    def must_work(colname, ct, ref, req, eff):
        try:
            t = call(colname, req)
        except Exception as e:
            import traceback
            if flag_removed(req, e):
                return
            bad(f'{ct}:raised:{type(e).__name__}{n0}', f'{rdesc(colname, req)} raised {type(e).__name__}: {e}\n' +
                ''.join(traceback.format_exception(e))[-700:])
            return
        check_table(t, colname, ct, ref, req, eff)

    if auto is not None:
        ct, ref = refs_[auto]
        for req in requests(ct, True):
            must_work(None, ct, ref, req, auto)
        for req in requests(ct, case['full']):
            must_work(auto, ct, ref, req, auto)
    else:
        why = 'several' if len(known) > 1 else 'no'
        for req in (dict(load=None), dict(load=('pos',)), dict(load=('pid',)), dict(load=('aux',)), dict(load=()),
                    dict(load=None, lp=True, lv=False)):
            must_raise(req, why)
        for colname, (ct, ref) in refs_.items():
            for req in requests(ct, case['full']):
                must_work(colname, ct, ref, req, colname)
    if sha(fn) != h0:
        bad('file-modified', 'the file content changed while reading')
    return dict(problems=probs, evals=X['reads'], nt=nt, extra=dict(X, error_types=sorted(errtypes)), sample=sample)

"""C17 - partition_parallel returns a stripe-ordered permutation of its input.

Exhaustive over small particle sets on a boundary alphabet x npartition x coord x dtype x weights x sort x
thread counts, compiled (real threads) and as an interpreted twin with E-POR (Bernstein conditions between the
per-thread bodies of each of the three parallel regions, exactly-once writes of the scatter output).
"""
import itertools
from fractions import Fraction
import numpy as np

PID = 'C17'
LEVEL = 'model_checking'
RULE = ('particle sets: all sequences of length <=3 over the coordinate alphabet {0, stripe boundaries +-ulp, exact boundaries, mid-stripe, '
        'duplicates, Box} plus structured families up to N=9; x npartition {1,2,3,4,7} x coord x float32/64 x weights x sort x '
        'nthread 1..12 (compiled with real threads, and twin with virtual threads incl. nthread > N); states = prange bodies executed in '
        'twins, transitions = tracked array accesses; non-trivial = distinct (config, particle set) with a particle within 1 ulp of a '
        'stripe boundary or duplicates or nthread > N')
ASSUMPTIONS = ['Bernstein independence in one sequential order implies the same result in every interleaving (bodies read only locations no other body writes)',
               'virtual thread API inside twins only', 'particles within 4 ulp of a stripe boundary may land in either neighbouring stripe']
CHUNK = 1
WORKERS = 16
BOXES = {0: 8.0, 1: 7.25}


def cases(tier, seed):
    yield from _sweep_cases(tier)
    nps = [1, 2, 3, 4, 7]
    for npart in nps:
        for coord in (0, 1, 2):
            for dt in ('f4', 'f8'):
                for wts in (False, True):
                    for sort in (False, True):
                        for bi in (0, 1):
                            if tier == 'quick' and (coord + (dt == 'f8') + wts + sort + bi + npart + seed) % 3 != 0:
                                continue
                            yield dict(np=npart, coord=coord, dt=dt, wts=wts, sort=sort, box=bi, maxfull=2 if tier == 'quick' else 3)


def _sweep_cases(tier):
    # the per-thread input ranges depend only on (N, nthread): sweep every N densely for every real thread count
    top = 128 if tier == 'quick' else 1024
    for lo in range(0, top, 32):
        yield dict(kind='sweep', lo=lo, hi=min(lo + 32, top))


def alphabet(npart, box, dtype):
    a = [0.0, box]
    for s in range(npart + 1):
        b = dtype(s * box / npart)
        a += [b, np.nextafter(b, dtype(-1)), np.nextafter(b, dtype(2 * box))]
        if s < npart:
            a.append(dtype((s + 0.5) * box / npart))
    a = sorted({float(dtype(x)) for x in a if 0 <= x <= box})
    return a


def particle_sets(npart, box, dtype, maxfull):
    A = alphabet(npart, box, dtype)
    yield []
    for n in range(1, maxfull + 1):
        if len(A) ** n <= (120 if maxfull < 3 else 6000):
            yield from (list(t) for t in itertools.product(A, repeat=n))
        else:
            # all ordered pairs/triples over a reduced alphabet (boundaries and their neighbours only)
            B = A[::2]
            while len(B) ** n > (120 if maxfull < 3 else 6000):
                B = B[::2]
            yield from (list(t) for t in itertools.product(B, repeat=n))
    for n in ((5, 9) if maxfull < 3 else (4, 5, 7, 9)):
        m = len(A)
        yield [A[(i * m) // n] for i in range(n)]                 # ascending spread
        yield [A[(i * m) // n] for i in range(n)][::-1]           # descending
        yield [A[(i * 5 + 1) % m] for i in range(n)]              # scrambled
        yield [A[m // 2]] * n                                     # all duplicates
        yield [A[-1]] * (n // 2) + [A[0]] * (n - n // 2)          # Box then 0
        yield [A[(i % 2) * (m - 1)] for i in range(n)]            # alternating ends


def stripe_options(x, npart, box, dtype):
    """set of stripes the property allows for abscissa x"""
    t = Fraction(float(x)) * npart / Fraction(float(box))
    s = int(t // 1)
    opts = {min(max(s, 0), npart - 1)}
    tf = float(t)
    r = round(tf)
    if abs(tf - r) <= 4 * np.finfo(dtype).eps * max(abs(tf), 1.0):
        opts |= {min(max(r - 1, 0), npart - 1), min(max(r, 0), npart - 1)}
    return opts


_T = None


def env():
    global _T
    if _T is None:
        from vf import twin
        from abacusnbody.analysis import tsc
        rt = twin.Runtime()
        tw = twin.Twins(rt)
        _T = dict(rt=rt, tw=tw, f=tw.twin(tsc.partition_parallel), tsc=tsc)
    return _T


def oracle(pos, w, out, npart, coord, box, dtype, sort, tag):
    ps, st, ws = out
    probs = []
    N = len(pos)
    ps, st = np.asarray(ps), np.asarray(st)
    if ps.shape != pos.shape or ps.dtype != pos.dtype:
        return [('shape', f'{tag}: output shape/dtype {ps.shape}/{ps.dtype}')]
    if st.shape != (npart + 1,) or st[0] != 0 or st[-1] != N or (np.diff(st) < 0).any():
        return [('starts', f'{tag}: starts={st.tolist()} for N={N}, npartition={npart}')]
    if (w is None) != (ws is None):
        return [('weights', f'{tag}: weights returned {ws is not None} but given {w is not None}')]
    rows_in = sorted((tuple(pos[i].tolist()) + ((float(w[i]),) if w is not None else ())) for i in range(N))
    rows_out = sorted((tuple(ps[i].tolist()) + ((float(np.asarray(ws)[i]),) if w is not None else ())) for i in range(N))
    if rows_in != rows_out:
        probs.append(('not-a-permutation', f'{tag}: output rows (with weights) are not a permutation of the input\n in {rows_in}\n out {rows_out}'))
        return probs
    for s in range(npart):
        seg = ps[st[s]:st[s + 1], coord]
        for x in seg:
            if s not in stripe_options(x, npart, box, dtype):
                probs.append(('wrong-stripe', f'{tag}: x={float(x)!r} found in stripe {s}, allowed {sorted(stripe_options(x, npart, box, dtype))} (npartition={npart}, Box={box})'))
        if sort and (np.diff(seg) < 0).any():
            probs.append(('not-sorted', f'{tag}: stripe {s} not sorted: {seg.tolist()}'))
    return probs


def run_sweep(case):
    from abacusnbody.analysis import tsc
    probs, nt = [], []
    n = 0
    box = 8.0
    for N in range(case['lo'], case['hi']):
        pos = np.empty((N, 3), dtype=np.float32)
        pos[:, 0] = (np.arange(N) * 2.3) % box
        pos[:, 1] = np.arange(N) + 0.5
        pos[:, 2] = 7.0
        w = (100 + np.arange(N)).astype(np.float32)
        for nthread in range(1, 17):
            ps, st, ws = tsc.partition_parallel(pos, 3, box, weights=w, coord=0, nthread=nthread, sort=False)
            n += 1
            for s_, m in oracle(pos, w, (ps, st, ws), 3, 0, box, np.float32, False, f'sweep N={N} nthread={nthread}'):
                if not any(p['sig'] == 'sweep:' + s_ for p in probs):
                    probs.append(dict(sig='sweep:' + s_, msg=m[:1500]))
            if nthread > 1 and N:
                nt.append(('sweep', N, nthread))
    if case['lo'] == 0:
        # more particles than 2^16 (and than any small-table shortcut): permutation, membership, starts
        for dtype in (np.float32, np.float64):
            N = 100003
            pos = np.empty((N, 3), dtype=dtype)
            pos[:, 0] = ((np.arange(N) * 7919) % N + 0.25) * (box / N)
            pos[:, 1] = np.arange(N) + 0.5
            pos[:, 2] = 7.0
            w = (np.arange(N) % 1000 + 1).astype(dtype)
            for nthread in (1, 7, 16):
                ps, st, ws = tsc.partition_parallel(pos, 6, box, weights=w, coord=0, nthread=nthread, sort=(nthread == 7))
                n += 1
                ps, st, ws = np.asarray(ps), np.asarray(st), np.asarray(ws)
                ok = st[0] == 0 and st[-1] == N and (np.diff(st) >= 0).all() and len(st) == 7
                ident = np.round(ps[:, 1] - 0.5).astype(np.int64)
                ok = ok and np.array_equal(np.sort(ident), np.arange(N)) and np.array_equal(ps[:, 0], pos[ident, 0]) and np.array_equal(ws, w[ident])
                key = np.minimum((ps[:, 0].astype(np.float64) * 6 / box).astype(np.int64), 5)
                exp_key = np.repeat(np.arange(6), np.diff(st)) if ok else None
                if not ok or (np.abs(key - exp_key) > 0).sum() > 0:
                    probs.append(dict(sig='bigN:partition', msg=f'N={N} {dtype.__name__} nthread={nthread}: not a stripe-ordered permutation with weights attached (starts {st.tolist()})'))
            nt.append(('bigN', N, dtype.__name__))
        # very many stripes (more than any 16-bit key could number), particles spread over the whole box
        for npart in (300, 40000, 70001):
            for dtype in (np.float32, np.float64):
                N = 97
                pos = np.empty((N, 3), dtype=dtype)
                pos[:, 0] = ((np.arange(N) * 37) % N + 0.5) * (box / N)
                pos[:, 1] = np.arange(N) + 0.5
                pos[:, 2] = 7.0
                for nthread in (1, 5):
                    ps, st, ws = tsc.partition_parallel(pos, npart, box, coord=0, nthread=nthread, sort=False)
                    n += 1
                    for s_, m in oracle(pos, None, (ps, st, ws), npart, 0, box, dtype, False, f'many stripes npartition={npart} {dtype.__name__} nthread={nthread}'):
                        if not any(p['sig'] == 'manystripes:' + s_ for p in probs):
                            probs.append(dict(sig='manystripes:' + s_, msg=m[:1500]))
                nt.append(('manystripes', npart, dtype.__name__))
        # weights whose type differs from the positions' (wider floats, integer ids): they move with their particles, unchanged
        for pdt, wdt in ((np.float32, np.float64), (np.float32, np.int64), (np.float64, np.float32), (np.float32, np.uint8)):
            N = 61
            pos = np.empty((N, 3), dtype=pdt)
            pos[:, 0] = ((np.arange(N) * 37) % N + 0.5) * (box / N)
            pos[:, 1] = np.arange(N) + 0.5
            pos[:, 2] = 7.0
            if wdt is np.float64:
                w = 1e9 + np.arange(N) + 1 / 3
            elif wdt is np.int64:
                w = (1 << 40) + 3 * np.arange(N, dtype=np.int64) + 1
            elif wdt is np.uint8:
                w = (np.arange(N) * 5 % 251).astype(np.uint8)
            else:
                w = (np.arange(N) + 0.5).astype(np.float32)
            for nthread, sort in ((1, False), (4, False), (4, True)):
                w0 = w.copy()
                try:
                    ps, st, ws = tsc.partition_parallel(pos, 4, box, weights=w, coord=0, nthread=nthread, sort=sort)
                except (TypeError, ValueError):
                    continue        # (a weight type may be refused)
                n += 1
                ps, ws = np.asarray(ps), np.asarray(ws)
                ident = np.round(ps[:, 1] - 0.5).astype(np.int64)
                if not np.array_equal(w, w0):
                    probs.append(dict(sig='mixed-dtype:input-modified', msg=f'pos {pdt.__name__} weights {wdt.__name__}: input weights modified'))
                if ws.shape != (N,) or not np.array_equal(np.sort(ident), np.arange(N)) or not np.array_equal(ws.astype(np.float64) if wdt is not np.int64 else ws, (w0[ident].astype(np.float64) if wdt is not np.int64 else w0[ident])):
                    probs.append(dict(sig='mixed-dtype:weights-not-carried', msg=f'pos {pdt.__name__} weights {wdt.__name__} nthread={nthread} sort={sort}: returned weights ({ws.dtype}) are not the input weights of the same particles, e.g. {ws[:3].tolist()} vs {w0[ident][:3].tolist()}'))
            nt.append(('mixed-dtype', pdt.__name__, wdt.__name__))
    return dict(problems=probs, evals=n, nt=nt, states=1, transitions=1, traces=0, extra=dict(sweep_runs=n))


def run(case):
    if case.get('kind') == 'sweep':
        return run_sweep(case)
    T = env()
    tsc, rt = T['tsc'], T['rt']
    npart, coord, sort = case['np'], case['coord'], case['sort']
    dtype = np.float32 if case['dt'] == 'f4' else np.float64
    box = BOXES[case['box']]
    probs = []
    nt = []
    ncomp = ntwin = bodies = accesses = pairs = 0
    nperm_sets = norders = 0
    seen = set()

    def add(sig, msg):
        if sig not in seen:
            seen.add(sig)
            probs.append(dict(sig=sig, msg=msg))
    for xs in particle_sets(npart, box, dtype, case['maxfull']):
        N = len(xs)
        pos = np.empty((N, 3), dtype=dtype)
        for j in range(3):
            pos[:, j] = np.arange(N) * 0.25 + 0.125 + j     # identity tags in the other two columns
        pos[:, coord] = xs
        w = (100 + np.arange(N)).astype(dtype) if case['wts'] else None
        pos0 = pos.copy()
        w0 = None if w is None else w.copy()
        ref_out = None
        threads = ([1, 3, 12] if N <= 3 else [1, 2, 7, 12]) if case['maxfull'] < 3 else ([1, 2, 3, 5, 12] if N <= 3 else [1, 2, 4, 7, 12])
        nearb = any(len(stripe_options(x, npart, box, dtype)) > 1 or x in (0.0, box) for x in xs)
        for nthread in threads:
            tag = f'compiled nthread={nthread} N={N} xs={xs}'
            try:
                out = tsc.partition_parallel(pos, npart, box, weights=w, coord=coord, nthread=nthread, sort=sort)
            except Exception as e:
                add('compiled:raises:' + type(e).__name__, f'{tag}: {e}')
                continue
            ncomp += 1
            for s, m in oracle(pos0, w0, out, npart, coord, box, dtype, sort, tag):
                add('compiled:' + s, m)
            if not np.array_equal(pos, pos0) or (w is not None and not np.array_equal(w, w0)):
                add('compiled:input-modified', tag)
                pos = pos0.copy()
            o = (np.asarray(out[0]).copy(), np.asarray(out[1]).copy(), None if out[2] is None else np.asarray(out[2]).copy())
            if not sort:
                pass
            if ref_out is None:
                ref_out = o
            elif sort is False and not (np.array_equal(o[1], ref_out[1])):
                add('compiled:starts-depend-on-nthread', f'{tag}: starts {o[1].tolist()} vs {ref_out[1].tolist()} for nthread=1')
        # twin + E-POR, virtual threads (including more threads than particles)
        for nthread in (([1, 2, 5] if N <= 3 else [2, 12]) if case['maxfull'] < 3 else ([1, 2, 3, 5] if N <= 3 else [2, 4, 12])):
            rt.reset(nthreads=nthread, max_threads=64)
            tag = f'twin nthread={nthread} N={N} xs={xs}'
            try:
                out = T['f'](rt.track(pos0.copy(), 'pos'), npart, box, weights=None if w0 is None else rt.track(w0.copy(), 'weights'),
                             coord=coord, nthread=nthread, sort=sort)
            except Exception as e:
                from vf import core
                st = core.stale_reason(e)
                if st or type(e).__name__ == 'TwinError':
                    raise core.Stale(st or f'TwinError: {e}')
                add('twin:raises:' + type(e).__name__, f'{tag}: {type(e).__name__}: {e}')
                continue
            ntwin += 1
            accesses += rt.naccess
            for s, m in oracle(pos0, w0, out, npart, coord, box, dtype, sort, tag):
                add('twin:' + s, m)
            if rt.uninit_reads:
                add('twin:uninitialised-read', f'{tag}: read before write of {rt.uninit_reads[0]}')
            for reg in rt.regions:
                bodies += reg.n
                pairs += reg.pairs_checked
                for c in reg.conflicts:
                    add('por:conflict', f'{tag}: region {reg.label}: bodies {c[3]} both access {c[0]} element {c[2]} ({c[1]})')
            # scatter region: every element of the freshly allocated outputs written exactly once
            scat = [r for r in rt.regions][1] if len(rt.regions) >= 2 else None
            if scat is not None and N > 0:
                for rid, (mn, mx, nw) in scat.write_counts.items():
                    root = rt.roots[rid]
                    returned = [np.asarray(a) for a in (out[0], out[2]) if a is not None and np.asarray(a).size]
                    if root.kind == 'empty' and root.size in (3 * N, N) and any(np.shares_memory(a, root.arr) for a in returned):      # the returned arrays only, not scratch
                        if not (mn == 1 and mx == 1 and nw == root.size):
                            add('por:output-not-written-exactly-once', f'{tag}: {root.label}: write counts min {mn} max {mx}, {nw}/{root.size} elements written in the scatter region')
            # twin result must equal the compiled result with one real thread when unsorted order is defined (same nthread)
            try:
                cout = tsc.partition_parallel(pos0.copy(), npart, box, weights=None if w0 is None else w0.copy(), coord=coord, nthread=min(nthread, 16), sort=sort)
                same = np.array_equal(np.asarray(out[0]), cout[0]) and np.array_equal(np.asarray(out[1]), cout[1]) and (w0 is None or np.array_equal(np.asarray(out[2]), cout[2]))
                # (both results have passed the oracle; they may still differ where a particle sits within rounding of a stripe
                #  boundary - fastmath may turn x/w into x*(1/w) in the compiled kernel only - or among equal keys when sorting)
                if not same and not (sort and len(set(xs)) < len(xs)) and not any(len(stripe_options(x, npart, box, dtype)) > 1 for x in xs):
                    add('conformance:twin-vs-compiled', f'{tag}: twin and compiled results differ')
            except Exception as e:
                add('compiled:raises:' + type(e).__name__, f'{tag}: {e}')
            # independence validated, not only inferred: for <= 3 bodies every execution order of the bodies is really run
            if 2 <= nthread <= 3 and nperm_sets < 25 and N >= 2:
                nperm_sets += 1
                base = (np.asarray(out[0]).copy(), np.asarray(out[1]).copy(), None if out[2] is None else np.asarray(out[2]).copy())
                for order in itertools.permutations(range(nthread)):
                    rt.reset(nthreads=nthread, max_threads=64, order=list(order))
                    o2 = T['f'](rt.track(pos0.copy(), 'pos'), npart, box, weights=None if w0 is None else rt.track(w0.copy(), 'weights'),
                                coord=coord, nthread=nthread, sort=sort)
                    norders += 1
                    same = np.array_equal(np.asarray(o2[0]), base[0]) and np.array_equal(np.asarray(o2[1]), base[1]) and (base[2] is None or np.array_equal(np.asarray(o2[2]), base[2]))
                    if not same:
                        add('twin:body-order-changes-result', f'{tag}: executing the per-thread bodies in order {order} changes the result')
                rt.reset(nthreads=nthread, max_threads=64)
        if nearb or len(set(xs)) < len(xs) or N < 12:
            nt.append((case['np'], case['coord'], case['dt'], case['wts'], case['sort'], case['box'], tuple(xs)))
    return dict(problems=probs, evals=ncomp + ntwin, nt=nt, states=max(bodies, 1), transitions=max(accesses, 1), traces=ntwin,
                extra=dict(compiled_runs=ncomp, twin_runs=ntwin, body_pairs_checked=pairs, permuted_order_runs=norders),
                sample=dict(case=case, alphabet=alphabet(npart, box, dtype)) if npart == 3 and coord == 0 else None)

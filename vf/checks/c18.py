"""C18 - every eigenvector code decodes to a distinct orthonormal triad.

The whole input domain (65340 valid codes) is swept: in one batch, in 121 batches, one code at a time
(no cross-row dependence), and through the catalog loader for all 18 eigenvector-triple columns.
Oracle: geometry only (norms, orthogonality, handedness, distinctness, covering of the hemisphere).
"""
import numpy as np

PID = 'C18'
LEVEL = 'exploration'
RULE = ('all 65340 valid codes (12 caps x 121 cells x 45 azimuth bins), each decoded in 1 batch, in 121 batches and singly, and '
        'through CompaSOHaloCatalog for the 18 sigma{r,n,v}_eigenvecs{Min,Mid,Maj}_{com,L2com} columns; '
        'non-trivial = distinct codes whose triad passed through the oracle')
ASSUMPTIONS = ['valid codes are 0..65339', 'covering tolerance = 4.0 deg + spacing of a 2e5-point Fibonacci hemisphere net']
NCODE = 12 * 121 * 45
CHUNK = 1
WORKERS = 16


def cases(tier, seed):
    yield dict(mode='batch')
    yield dict(mode='chunks')
    n = 16 if tier == 'quick' else 16
    step = -(-NCODE // n)
    for i in range(n):
        yield dict(mode='single', lo=i * step, hi=min(NCODE, (i + 1) * step))
    # columns longer than the code domain (codes repeat): every length around the powers of two up to 2^18, against the per-code decode
    yield dict(mode='long')
    # two concurrent first decodes, every interleaving of their source lines with <= 1 preemption (a decoder that
    # builds shared state lazily must not let a second caller see it half built)
    yield dict(mode='threads', bound=1, n=2)
    if tier != 'quick':
        yield dict(mode='threads', bound=1, n=3)
    for com in ('com', 'L2com'):
        for rnv in 'rnv':
            yield dict(mode='catalog', cleaned=False, com=com, rnv=rnv)
            if tier != 'quick':
                yield dict(mode='catalog', cleaned=True, com=com, rnv=rnv)


_ENV = None


def worker_init():
    pass


def geometry(minor, middle, major, tol, codes):
    """returns list of (sig, msg)"""
    out = []
    mn, md, mj = (np.asarray(a, dtype=np.float64) for a in (minor, middle, major))
    for name, v in (('minor', mn), ('middle', md), ('major', mj)):
        d = np.abs(np.linalg.norm(v, axis=1) - 1)
        if not (d <= tol).all():
            i = int(np.nanargmax(np.where(np.isnan(d), np.inf, d)))
            out.append(('norm:' + name, f'code {int(codes[i])}: |{name}| - 1 = {d[i]}'))
    for a, b, n in ((mn, md, 'minor.middle'), (mn, mj, 'minor.major'), (md, mj, 'middle.major')):
        d = np.abs(np.einsum('ij,ij->i', a, b))
        if not (d <= tol).all():
            i = int(np.nanargmax(np.where(np.isnan(d), np.inf, d)))
            out.append(('orthogonality', f'code {int(codes[i])}: {n} = {d[i]}'))
    d = np.abs(md - np.cross(mn, mj)).max(axis=1)
    if not (d <= 10 * tol).all():
        i = int(np.nanargmax(np.where(np.isnan(d), np.inf, d)))
        out.append(('handedness', f'code {int(codes[i])}: middle - minor x major = {d[i]}'))
    return out


def distinct_and_cover(minor, major, res):
    out = []
    key = np.round(np.concatenate([minor, major], axis=1) / res).astype(np.int64)
    u, idx, cnt = np.unique(key, axis=0, return_index=True, return_counts=True)
    if len(u) != len(key):
        j = int(np.argmax(cnt))
        same = np.nonzero((key == u[j]).all(axis=1))[0][:4]
        out.append(('not-distinct', f'{len(key) - len(u)} codes share a triad with another code, e.g. codes {same.tolist()}'))
    # covering: hemisphere net vs distinct major axes (up to sign)
    maj = np.unique(np.round(major / 1e-9).astype(np.int64), axis=0) * 1e-9
    n = 200000
    k = np.arange(n) + 0.5
    z = k / n                       # upper hemisphere
    phi = np.pi * (1 + 5 ** 0.5) * k
    r = np.sqrt(1 - z * z)
    net = np.stack([r * np.cos(phi), r * np.sin(phi), z], axis=1)
    worst = 0.0
    wi = 0
    for s in range(0, n, 20000):
        c = np.abs(net[s:s + 20000] @ maj.T).max(axis=1)
        ang = np.degrees(np.arccos(np.clip(c, -1, 1)))
        if ang.max() > worst:
            worst, wi = float(ang.max()), s + int(np.argmax(ang))
    spacing = np.degrees(np.sqrt(2 * np.pi / n))
    if not worst <= 4.0 + spacing:
        out.append(('covering', f'direction {net[wi].tolist()} is {worst:.3f} deg from the nearest decoded major axis (limit {4.0 + spacing:.3f})'))
    return out, len(maj), worst


def run(case):
    global _ENV
    if case['mode'] == 'catalog' and _ENV is None:
        from vf import catgen
        _ENV = catgen.Env()          # installs the asdf double before the catalog module is imported
    from abacusnbody.data import compaso_halo_catalog as chc
    codes = np.arange(NCODE, dtype=np.uint16)
    probs = []
    extra = {}
    nt = []
    mode = case['mode']
    if mode == 'threads':
        from vf import twin
        import importlib
        chc = importlib.reload(chc)        # pristine module globals: nothing has been decoded in this module object yet
        sets = [np.arange(0, NCODE, 997, dtype=np.uint16), np.arange(5, NCODE, 1009, dtype=np.uint16), np.arange(11, NCODE, 1013, dtype=np.uint16)][:case['n']]
        calls = [(lambda c=c: chc._unpack_euler16(c.copy())) for c in sets]
        fname = chc.__file__
        nexec = npts = 0
        outcomes = set()
        runs = []
        stuck = 0
        it = twin.explore_lines(calls, lambda f: f == fname, case['bound'], modules=[chc], max_exec=20000)
        while True:
            try:
                choices, pre, res = next(it)
            except StopIteration:
                break
            except twin.SchedulerStuck:
                stuck = 1      # a thread blocked on a real lock held by a paused thread: the decoder synchronises itself; inconclusive
                break
            if False:
                pass
            if choices == 'CAPPED':
                extra['threads_capped'] = 1
                break
            nexec += 1
            npts += len(choices)
            runs.append((choices, pre, [None if r is None else tuple(np.array(a) for a in r) for r in res]))
        ref = [tuple(a.copy() for a in chc._unpack_euler16(c.copy())) for c in sets]     # sequential decode, after the exploration
        for choices, pre, res in runs:
            ok = all(r is not None and all(np.array_equal(x, y) for x, y in zip(r, rf)) for r, rf in zip(res, ref))
            outcomes.add(ok)
            if not ok and not probs:
                probs.append(dict(sig='euler16:concurrent-first-calls-differ', msg=f'{case["n"]} concurrent decodes, schedule {choices} ({pre} preemptions): a thread got triads different from the sequential decode'))
        return dict(problems=probs, nt=[('threads', case['n'], case['bound'])], evals=nexec,
                    extra=dict(line_schedules_explored=nexec, line_scheduling_points=npts, line_exploration_stuck_on_real_lock=stuck, distinct_thread_outcomes=[str(o) for o in outcomes]))
    if mode == 'long':
        base = tuple(np.array(a) for a in chc._unpack_euler16(codes.copy()))
        lens = sorted({(1 << p) + d for p in range(10, 19) for d in (-1, 0, 1, 5)} | {NCODE + 1, 2 * NCODE + 3, 200003})
        nbad = 0
        for n in lens:
            idx = (np.arange(n, dtype=np.int64) * 40503 + 17) % NCODE          # every code appears, order unrelated to position
            got = chc._unpack_euler16(codes[idx].copy())
            for name, g, b in zip(('minor', 'middle', 'major'), got, base):
                g = np.asarray(g)
                if g.shape != (n, 3) or not np.array_equal(g, b[idx]):
                    row = int(np.argmax((g != b[idx]).any(axis=1))) if g.shape == (n, 3) else -1
                    probs.append(dict(sig='euler16:long-column', msg=f'{n}-row column: {name} differs from the per-code decode, first at row {row} (shape {g.shape})'))
                    nbad += 1
                    break
        return dict(problems=probs[:3], nt=[('long', n) for n in lens], evals=len(lens), extra=dict(long_columns=len(lens), long_rows=int(sum(lens))))
    if mode in ('batch', 'chunks', 'single'):
        if mode == 'batch':
            arr = codes.copy()
            mn, md, mj = chc._unpack_euler16(arr)
            sel = codes
            # the raw column belongs to the caller: it must not be changed, and decoding the same array again gives the same triads
            if not np.array_equal(arr, codes):
                probs.append(dict(sig='euler16:input-modified', msg=f'_unpack_euler16 changed its input array ({int((arr != codes).sum())} of {NCODE} codes)'))
            mn2, md2, mj2 = chc._unpack_euler16(arr)
            if not (np.array_equal(mn2, mn) and np.array_equal(md2, md) and np.array_equal(mj2, mj)):
                probs.append(dict(sig='euler16:second-decode-differs', msg='decoding the same array object a second time gives different triads'))
        elif mode == 'chunks':
            parts = [chc._unpack_euler16(codes[i::121].copy()) for i in range(121)]
            dt_ = np.asarray(parts[0][2]).dtype
            mn = np.empty((NCODE, 3), dtype=dt_); md = np.empty((NCODE, 3), dtype=dt_); mj = np.empty((NCODE, 3), dtype=dt_)
            for i, (a, b, c) in enumerate(parts):
                mn[i::121], md[i::121], mj[i::121] = a, b, c
            sel = codes
        else:
            sel = codes[case['lo']:case['hi']]
            res = [chc._unpack_euler16(sel[i:i + 1].copy()) for i in range(len(sel))]
            mn = np.concatenate([r[0] for r in res]); md = np.concatenate([r[1] for r in res]); mj = np.concatenate([r[2] for r in res])
        tol = max(1e-12, 64 * float(np.finfo(np.asarray(mj).dtype).eps)) if np.asarray(mj).dtype.kind == 'f' else 1e-12
        for sig, msg in geometry(mn, md, mj, tol, sel):
            probs.append(dict(sig=f'euler16:{sig}', msg=f'{mode}: {msg}'))
        # batching must not matter: compare with the single batch decode of the same codes
        bmn, bmd, bmj = chc._unpack_euler16(sel.copy())
        if not (np.array_equal(bmn, mn) and np.array_equal(bmd, md) and np.array_equal(bmj, mj)):
            probs.append(dict(sig='euler16:batch-dependence', msg=f'{mode}: decode differs from the one-batch decode'))
        if mode != 'single':
            ps, nmaj, worst = distinct_and_cover(np.asarray(mn, dtype=np.float64), np.asarray(mj, dtype=np.float64), max(1e-9, tol * 10))
            extra = dict(distinct_major_axes=nmaj)
            for sig, msg in ps:
                probs.append(dict(sig=f'euler16:{sig}', msg=f'{mode}: {msg}'))
            extra_max = dict(covering_radius_mdeg=int(worst * 1000))
        nt = [int(c) for c in sel] if mode != 'chunks' else []
        r = dict(problems=probs, nt=nt, evals=len(sel), extra=extra)
        if mode != 'single':
            r['max'] = extra_max
            r['sample'] = dict(mode=mode, code=12345, minor=mn[12345].tolist(), middle=md[12345].tolist(), major=mj[12345].tolist())
        return r
    # through the catalog loader
    from vf import catgen
    cat = catgen.Catalog([[]])
    rows = np.arange(NCODE)
    raw = catgen.fill_values(catgen.raw_layout(), rows)
    cl = catgen.fill_values(catgen.clean_layout(), rows)
    perms = {}
    k = 0
    for name, dt, tail in catgen.raw_layout():
        if dt == 'u2':
            mult = [1, 7, 13, 17, 19, 23][k]     # coprime to 65340 => permutation of all codes
            perms[name] = ((rows * mult + 1000 * k) % NCODE).astype(np.uint16)
            raw[name] = perms[name]
            k += 1
    raw['npstartA'][:] = 0; raw['npstartB'][:] = 0; raw['npoutA'][:] = 0; raw['npoutB'][:] = 0
    cat.files = {f'halos/{catgen.ZDIR}/halo_info/halo_info_000.asdf': dict(header=cat.header, data=raw),
                 'clean/cleaned_halo_info/cleaned_halo_info_000.asdf': dict(header=cat.clean_header, data=cl)}
    zdir, _ = _ENV.mount(cat)
    n = 0
    for com in (case['com'],):
        for rnv in (case['rnv'],):
            names = [f'sigma{rnv}_eigenvecs{w}_{com}' for w in ('Min', 'Mid', 'Maj')]
            c = _ENV.load(zdir, cleaned=case['cleaned'], fields=names)
            got = [np.asarray(c.halos[x]) for x in names]
            code = perms[f'sigma{rnv}_eigenvecs_{com}_u16']
            for sig, msg in geometry(*got, 5e-7, code):
                probs.append(dict(sig=f'catalog:{sig}', msg=f'{names[0][:-8]}: {msg}'))
            ps, nmaj, worst = distinct_and_cover(np.asarray(got[0], dtype=np.float64), np.asarray(got[2], dtype=np.float64), 1e-6)
            for sig, msg in ps:
                probs.append(dict(sig=f'catalog:{sig}', msg=f'{names[0]}: {msg}'))
            # each single column requested alone gives the same values
            for x, g in zip(names, got):
                c1 = _ENV.load(zdir, cleaned=case['cleaned'], fields=[x])
                if not np.array_equal(np.asarray(c1.halos[x]), g):
                    probs.append(dict(sig='catalog:alone-vs-triple', msg=f'{x} differs when requested alone'))
            n += NCODE
            nt.append(f'catalog:{names[0]}:{case["cleaned"]}')
    return dict(problems=probs, evals=n, nt=nt, extra=dict(catalog_columns=3))

"""C19 - util.cumsum writes exactly the selected partial sums for every length.

Space (complete in both tiers): length 0..9 and {255,256,65535,65537,131072} x (initial, final) x offset x dtype pairing x
output length {right, right-1, right+1} x execution mode
  twin  : cumsum.py_func interpreted by CPython on numpy arrays (IndexError = out of bounds)
  comp  : the compiled dispatcher, arrays embedded in guard zones
  bchk  : the compiled dispatcher in a NUMBA_BOUNDSCHECK=1 process
Oracle: numpy.cumsum with the flag semantics.
"""
import itertools
import numpy as np

PID = 'C19'
LEVEL = 'exploration'
RULE = ('full product length 0..9 and {255,256,65535,65537,131072} x initial/final x offset {0,5,-3} x dtype pairs x out length {ok,-1,+1} x '
        '{interpreted twin, compiled with guard zones, compiled with NUMBA_BOUNDSCHECK=1}; '
        'non-trivial = distinct (length, flags, offset, dtypes, out-length) with length>=1 or a flag set')
ASSUMPTIONS = ['numpy.cumsum is the reference', 'non-integral float input into an integer output: numpy.cumsum(a, out=int_array) (sums formed first, truncated on store) and numpy.cumsum(a, dtype=int) (elements converted first) are both accepted', 'N_out = N-1+initial+final defines the right output length',
               'empty Python lists cannot be typed by numba and are only run interpreted']
ENVS = {'bchk': {'NUMBA_BOUNDSCHECK': '1'}}
WORKERS = 6
CHUNK = 64
ISOLATE_REPRO = True  # reproduce failures in a child: a compiled OOB may corrupt the heap

DT = [('int64', 'int64'), ('uint32', 'uint64'), ('int32', 'float64'), ('float32', 'float64'),
      ('list', 'int64'), ('int16', 'int32'), ('float64', 'float32'),
      ('float64:frac', 'int64'), ('float32:frac', 'int32')]       # non-integral values (multiples of 1/4, exact in every float type) into an integer output:
                                                                   # the partial sums are formed first and truncated when stored
G = 4


def cases(tier, seed):
    for lens in ([1], [3, 0, 2], [100, 100, 100], [0, 300], [127, 1, 128, 1]):
        for dt in (None, 'int64', 'uint8', 'int16', 'float32', 'float64'):
            yield dict(kind='concat', lens=lens, dtype=dt)
    for n in list(range(10)) + [255, 256, 65535, 65537, 1 << 17]:
        for ini, fin in itertools.product((False, True), repeat=2):
            for off in (0, 5, -3):
                for din, dout in DT:
                    if off < 0 and dout.startswith('uint'):
                        continue
                    for dl in (0, -1, 1):
                        for mode in (('twin', 'comp', 'bchk') if n < 10 else ('comp', 'bchk')):
                            c = dict(n=n, ini=ini, fin=fin, off=off, din=din, dout=dout, dl=dl, mode=mode)
                            if mode == 'bchk':
                                c['env'] = 'bchk'
                            yield c


def run_concat(c):
    """menv.concat_to_arr builds its start offsets with cumsum: they are int64 running totals whatever element dtype is asked for"""
    from abacusnbody.hod.menv import concat_to_arr
    lens = c['lens']
    lists = [[(i * 7 + j) % 100 for j in range(n)] for i, n in enumerate(lens)]
    probs = []
    kw = {} if c['dtype'] is None else dict(dtype=np.dtype(c['dtype']).type)
    try:
        res, starts = concat_to_arr(lists, **kw)
    except Exception as e:
        return dict(problems=[dict(sig='concat_to_arr:raises:' + type(e).__name__, msg=f'lens={lens} dtype={c["dtype"]}: {e}')], nt=[])
    # what one call returned belongs to the caller: a later call (other lists, same or other lengths) must not change it
    res = np.asarray(res); starts = np.asarray(starts)
    keep_res, keep_starts = res.copy(), starts.copy()
    for other in ([[1, 2], [3]], [list(range(n + 1)) for n in lens], lists[::-1]):
        try:
            r2, s2 = concat_to_arr(other, **kw)
        except Exception:
            continue
    if not (np.array_equal(res, keep_res) and np.array_equal(starts, keep_starts)):
        probs.append(dict(sig='concat_to_arr:earlier-result-changed-by-later-call', msg=f'lens={lens} dtype={c["dtype"]}: starts {keep_starts.tolist()} became {starts.tolist()} after later calls'))
    exp = np.array([x for ell in lists for x in ell], dtype=(np.int64 if c['dtype'] is None else c['dtype']))
    es = np.concatenate([[0], np.cumsum(lens)]).astype(np.int64)
    if not np.array_equal(np.asarray(starts).astype(np.int64), es) or np.asarray(starts).dtype.kind not in 'iu':
        probs.append(dict(sig='concat_to_arr:starts', msg=f'lens={lens} dtype={c["dtype"]}: starts {np.asarray(starts).tolist()} ({np.asarray(starts).dtype}) expected {es.tolist()}'))
    if np.asarray(res).shape != exp.shape or not np.array_equal(np.asarray(res), exp):
        probs.append(dict(sig='concat_to_arr:values', msg=f'lens={lens} dtype={c["dtype"]}: {len(res)} elements, expected {len(exp)}'))
    return dict(problems=probs, nt=[('concat', tuple(lens), c['dtype'])])


def run(c):
    if c.get('kind') == 'concat':
        return run_concat(c)
    from abacusnbody.util import cumsum
    n, ini, fin, off = c['n'], c['ini'], c['fin'], c['off']
    vals = ((3 * np.arange(n, dtype=np.int64) ** 2 + 2 * np.arange(n) + 1) % 11 + 1).tolist() if n >= 10 else [(3 * i * i + 2 * i + 1) % 11 + 1 for i in range(n)]
    nout = n - 1 + int(ini) + int(fin)
    m = nout + c['dl']
    probs = []
    sigbase = f"cumsum:{c['mode']}:" + ('N0' if n == 0 else 'N>0')
    if m < 0:
        return dict(problems=[], evals=0)
    dout = np.dtype(c['dout'])
    frac = c['din'].endswith(':frac')
    if frac:
        c = dict(c, din=c['din'][:-5])
        vals = [v / 4 + 0.25 * (i % 3) for i, v in enumerate(vals)]
    if c['din'] == 'list':
        if n == 0 and c['mode'] != 'twin':
            return dict(problems=[], evals=0)
        arr = list(vals)
        abig = None
    else:
        abig = np.full(n + 2 * G, 1000003 % 30000, dtype=c['din'])
        abig[G:G + n] = vals
        arr = np.ndarray((n,), dtype=abig.dtype, buffer=abig, offset=G * abig.itemsize)
    SENT = 77
    obig = np.full(m + 2 * G, SENT, dtype=dout)
    out = np.ndarray((m,), dtype=dout, buffer=obig, offset=G * dout.itemsize)  # keeps its address even when empty
    f = getattr(cumsum, 'py_func', cumsum) if c['mode'] == 'twin' else cumsum     # (a plain-Python cumsum is its own twin)
    alt = None
    if frac:
        # numpy.cumsum itself has two answers here: cumsum(a, out=int_array) forms the sums first and truncates on store,
        # cumsum(a, dtype=int) converts each element first; both are accepted (consistently for values and total)
        fsum = np.concatenate([[off], off + np.cumsum(np.array(vals, dtype=np.float64))])
        full = np.trunc(fsum).astype(dout)
        exp_total = fsum[-1]
        full2 = np.concatenate([[off], off + np.cumsum(np.trunc(np.array(vals, dtype=np.float64)).astype(dout), dtype=dout)]).astype(dout)
        alt = (full2[(0 if ini else 1):(len(full2) if fin else len(full2) - 1)] if n > 0 else full2[:max(nout, 0)], full2[-1])
    else:
        full = np.concatenate([[off], off + np.cumsum(np.array(vals, dtype=dout), dtype=dout)]).astype(dout)
        exp_total = full[-1]
    sel = full[(0 if ini else 1):(len(full) if fin else len(full) - 1)] if n > 0 else full[:max(nout, 0)]
    try:
        tot = f(arr, out, initial=ini, final=fin, offset=off)
        raised = None
    except (ValueError, AssertionError) as e:      # how a wrong-length output is rejected is not part of the property
        raised = e
    except (TypeError, RuntimeError) as e:
        if c['din'] == 'list' and n == 0:
            return dict(problems=[], evals=0)      # numba cannot type an empty Python list
        raise
    except (IndexError, SystemError) as e:
        probs.append(dict(sig=sigbase + ':oob', msg=f'out-of-bounds access: {type(e).__name__}: {e}'))
        raised = e
    # guard zones
    if not (obig[:G] == SENT).all() or not (obig[G + m:] == SENT).all():
        probs.append(dict(sig=sigbase + ':guard', msg=f'write outside the output array: {obig.tolist()}'))
    if abig is not None and not ((abig[:G] == 1000003 % 30000).all() and (abig[G + n:] == 1000003 % 30000).all()
                                 and (abig[G:G + n] == np.array(vals, dtype=abig.dtype)).all()):
        probs.append(dict(sig=sigbase + ':input-modified', msg='input modified'))
    if isinstance(raised, (IndexError, SystemError)):
        pass
    elif c['dl'] != 0 or nout < 0:
        if raised is None:
            probs.append(dict(sig=sigbase + ':wronglen-accepted', msg=f'output of length {m} accepted, needs {nout}'))
        elif not (out == SENT).all():
            probs.append(dict(sig=sigbase + ':wronglen-wrote', msg='rejected output was written to'))
    else:
        if raised is not None:
            if not (c['din'] == 'list' and n == 0):      # an empty Python list cannot be typed by numba, however cumsum is layered
                probs.append(dict(sig=sigbase + ':rejected', msg=f'right-length output rejected: {raised}'))
        else:
            if alt is not None and not np.array_equal(out, sel) and np.array_equal(out, alt[0]) and np.asarray(tot) == alt[1]:
                sel, exp_total = alt        # the element-wise-conversion convention, values and total alike
            if not np.array_equal(out, sel):
                probs.append(dict(sig=sigbase + ':values', msg=f'out={out.tolist()} expected={sel.tolist()}'))
            # (for non-integral sums the returned total may be the sum itself or the sum as stored in the output's type)
            if not (np.asarray(tot) == exp_total or (frac and (np.asarray(tot) == np.trunc(exp_total) or np.asarray(tot) == alt[1]))):
                probs.append(dict(sig=sigbase + ':total', msg=f'returned {tot!r} expected {exp_total!r}'))
    nt = []
    if n >= 1 or ini or fin:
        nt = [(n, ini, fin, off, c['din'] + (':frac' if frac else ''), c['dout'], c['dl'])]
    return dict(problems=probs, nt=nt, sample=c if (n == 3 and c['dl'] == 0 and c['mode'] == 'comp' and ini) else None)

"""C20 - pipe_asdf emits count, width and the concatenated raw bytes per field.

Bounded exhaustive enumeration on the real `abacusnbody.data.pipe_asdf.unpack_to_pipe`:

  schema   : 2 (quick) / 3 (thorough) sets of 5 columns covering item widths 1,2,4,8 (+16), shapes (n,), (n,3),
             (n,2,2), (0,), (0,3), big- and little-endian dtypes
  file set : 1..3 real ASDF files with the given row counts (0 rows included), written under /dev/shm
  compress : none | zlib | blsc | mix (file i uses none/zlib/blsc in rotation); the block headers of the written
             files are parsed to confirm the compression label really is in the file
  fields   : every ordered list of 1..3 distinct columns out of 5 (85 lists); the lists with repeated columns (155)
             on the uncompressed S0 file sets (thorough: on all uncompressed and mixed file sets, and the empty list)
  mode     : rec (in-memory recording pipe), ospipe (a real OS pipe drained by a thread through a BufferedWriter,
             like sys.stdout.buffer), cli (`python -m abacusnbody.data.pipe_asdf` in a subprocess, subset)
  errors   : a missing path / a directory at every position of the file list; a field that exists in no file at
             every position of every field list of length <= 3; a field missing from exactly one file
  strided  : 1-D columns stored as strided views of a shared block (legal ASDF, `base[:, k]`, `v[::2]`)

Oracle pipe_ref, written from the documented wire format: for each field in request order the native int64
element count (product of the shape, summed over the files), the native int32 item width, then the bytes that
were put into the files for that column, in file-argument order.  The payload bytes are generated as bytes first
(the arrays are np.frombuffer views of them), so the expected stream never passes through numpy conversions.
An error case must raise (any exception / non-zero exit status) and the pipe must have received ZERO bytes.
"""
import io
import itertools
import os
import struct

PID = 'C20'
LEVEL = 'exploration'
RULE = ('full product schema x file set (1-3 real ASDF files, row counts incl. 0) x compression {none, zlib, blsc, mixed} x '
        'all ordered field lists of length <= 3 over 5 columns (85; thorough: 155 with repeats on uncompressed/mixed sets + the '
        'empty list) x pipe kind '
        '{recording, real OS pipe}; CLI subprocess on a rotating subset; error alphabet: missing path/directory at every file '
        'position, unknown field at every position of every list, field absent from exactly one file; strided 1-D columns. '
        'non-trivial = distinct (schema, rows, compression, field list) whose expected stream carries payload bytes, plus '
        'distinct error configurations')
ASSUMPTIONS = [
    'the header ints are written in native byte order (the documented format says "8-byte int", "4-byte int")',
    'a field has the same dtype in every file of a set (with different widths "the" item width is undefined)',
    '"raw array bytes" of a column = the bytes of its elements in C order = the bytes stored in its ASDF block',
    'a missing file or field may be reported by any exception type (CLI: non-zero exit status)',
    'the blsc codec underneath is the strict blosc double of /verif/shims (framing of blosc itself is C16)',
    '0-d (scalar) entries and fields=None (CLI without -f) are outside the quantifier',
]
WORKERS = 8
CHUNK = 2

COMPS = ('none', 'zlib', 'blsc', 'mix')
_LABEL = {'none': b'\0\0\0\0', 'zlib': b'zlib', 'blsc': b'blsc'}

# name, dtype, trailing shape, fixed number of rows (None = the file's row count)
SCHEMAS = {
    'S0': [('a_u1', '|u1', (), None), ('b_be2x3', '>i2', (3,), None), ('c_f4x3', '<f4', (3,), None),
           ('d_be8', '>f8', (), None), ('e_empty', '<i8', (), 0)],
    'S1': [('p_i2', '<i2', (), None), ('q_be4', '>u4', (), None), ('r_u8x3', '<u8', (3,), None),
           ('s_i1x3', '|i1', (3,), None), ('t_e0x3', '<f4', (3,), 0)],
    'S2': [('k_c16', '<c16', (), None), ('m_be8x2x2', '>f8', (2, 2), None), ('h_f2', '<f2', (), None),
           ('w_be8x3', '>i8', (3,), None), ('z_be_e', '>i2', (), 0)],
}
ROWS_Q = [(5,), (0,), (4, 7), (0, 3), (3, 0, 6), (2, 3, 1)]
ROWS_T = ROWS_Q + [(1,), (0, 0), (6, 0), (1, 1, 1), (0, 0, 5), (700,), (2000, 1500)]
NOPE = 'no_such_field'


def field_lists(first, repeats):
    """All ordered lists of length 1..3 over column indices 0..4 that start with `first`."""
    out = [(first,)]
    rng = range(5)
    for b in rng:
        if b == first and not repeats:
            continue
        out.append((first, b))
        for c in rng:
            if not repeats and (c == first or c == b):
                continue
            out.append((first, b, c))
    return out


def cases(tier, seed):
    """Complete for the tier. The (slow) subprocess cases are spread evenly between the in-process ones."""
    allc = list(_cases(tier, seed))
    cli = [c for c in allc if c['mode'] == 'cli']
    rest = [c for c in allc if c['mode'] != 'cli']
    step = max(1, len(rest) // max(1, len(cli)))
    for i, c in enumerate(rest):
        yield c
        if i % step == step - 1 and cli:
            yield cli.pop(0)
    yield from cli


def _cases(tier, seed):
    thorough = tier == 'thorough'
    schemas = ['S0', 'S1', 'S2'] if thorough else ['S0', 'S1']
    rowsets = ROWS_T if thorough else ROWS_Q
    k = seed
    # simplest first: one uncompressed file, recording pipe
    for mode in ('rec', 'ospipe'):
        for ri, rows in enumerate(rowsets):
            multi = len(rows) > 1
            for comp in COMPS:
                if comp == 'mix' and not multi:
                    continue
                if mode == 'ospipe' and comp not in (('blsc', 'mix') if thorough else ('mix',)):
                    continue
                for si, s in enumerate(schemas):
                    # quick: S0 with every compression, S1 with one (rotating) compression per file set;
                    # the real OS pipe with one (rotating) schema
                    if not thorough and mode == 'rec' and si == 1 and comp != COMPS[(ri + seed) % (4 if multi else 3)]:
                        continue
                    if not thorough and mode == 'ospipe' and si != (ri + seed) % 2:
                        continue
                    # thorough: lists with repeated fields (155 instead of 85) on uncompressed and mixed file sets
                    rep = mode == 'rec' and (comp in ('none', 'mix') if thorough else (comp == 'none' and si == 0))     # (quick: uncompressed S0 only)
                    for first in range(5):
                        yield dict(kind='ok', schema=s, rows=list(rows), comp=comp, mode=mode, first=first, repeats=rep)
    if thorough:
        for s in schemas:
            for comp in COMPS[:3]:
                yield dict(kind='ok', schema=s, rows=[3, 4], comp=comp, mode='rec', first=-1, repeats=False)
    # CLI subset: a rotating sixth (quick) / two thirds (thorough) of all (schema, rows, comp), 3 lists each
    for s in schemas:
        for rows in rowsets:
            for comp in COMPS:
                if comp == 'mix' and len(rows) == 1:
                    continue
                k += 1
                if (k % 3 != 0) if thorough else (k % 6 == 0):
                    yield dict(kind='ok', schema=s, rows=list(rows), comp=comp, mode='cli', first=k % 5,
                               repeats=False, pick=k)
    # error alphabet
    erows = [(4,), (0,), (4, 7), (3, 0, 6), (2, 3, 1)] if thorough else [(4, 7), (3, 0, 6)]
    for s in schemas:
        for rows in erows:
            k += 1
            multi = len(rows) > 1
            rot = COMPS[k % (4 if multi else 3)]      # the one compression used for the slower variants
            for comp in COMPS:
                if comp == 'mix' and not multi:
                    continue
                if not thorough and comp != rot:
                    continue
                for mode in ('rec', 'ospipe'):
                    if mode == 'ospipe' and comp != rot:
                        continue
                    yield dict(kind='nofile', schema=s, rows=list(rows), comp=comp, mode=mode)
                    yield dict(kind='nofield', schema=s, rows=list(rows), comp=comp, mode=mode)
                if comp == rot:
                    yield dict(kind='nofile', schema=s, rows=list(rows), comp=comp, mode='cli')
                    yield dict(kind='nofield', schema=s, rows=list(rows), comp=comp, mode='cli')
                if not multi:
                    continue
                # a column absent from exactly one file: (file, column) pairs; quick: one schema, 2 columns per file,
                # thorough: all 5 columns per file on uncompressed + mixed sets, schema rotating with (file, column)
                for df in range(len(rows)):
                    for dc in (range(5) if thorough else (df, 4)):
                        if thorough:
                            if comp not in ('none', 'mix') or s != schemas[(df + dc + k) % 3]:
                                continue
                        elif s != schemas[k % 2]:
                            continue
                        yield dict(kind='partial', schema=s, rows=list(rows), comp=comp, mode='rec', dropfile=df, dropcol=dc)
                        if thorough and comp == 'mix':
                            yield dict(kind='partial', schema=s, rows=list(rows), comp=comp, mode='ospipe',
                                       dropfile=df, dropcol=dc)
    # strided 1-D columns
    for comp in COMPS[:3]:
        for mode in ('rec', 'ospipe', 'cli'):
            for rows in ([(5,), (4, 3), (2, 3, 1, 4, 2)] if thorough else [(5,), (2, 3, 1, 4, 2)]):      # the last: five input files
                yield dict(kind='strided', rows=list(rows), comp=comp, mode=mode)


# ------------------------------------------------------------------ test data

def raw_bytes(n, salt):
    """n deterministic bytes; every (salt, position) pattern differs so that any mix-up of file, column or offset shows."""
    return bytes(((salt * 89 + 17) + i * (2 * (salt % 7) + 3) + (i >> 8) * 11) % 251 + 1 for i in range(n))


def make_column(si, fi, ci, dt, trail, nrows):
    import numpy as np
    dt = np.dtype(dt)
    shape = (nrows,) + tuple(trail)
    nel = 1
    for x in shape:
        nel *= x
    raw = raw_bytes(nel * dt.itemsize, 1 + si * 31 + fi * 7 + ci)
    arr = np.frombuffer(raw, dtype=dt).reshape(shape)
    return arr, raw, nel, dt.itemsize


def comp_of(comp, i):
    return ('none', 'zlib', 'blsc')[i % 3] if comp == 'mix' else comp


def write_file(fn, cols, comp, big=False):
    import asdf
    kw = {}
    if comp == 'blsc':
        from vf import asdfpatch
        asdfpatch.patch()
        if big:
            kw = dict(compression_kwargs=dict(compression_block_size=4096, blosc_block_size=1024))
    af = asdf.AsdfFile({'data': dict(cols), 'header': {'note': 'vf C20'}})
    af.write_to(fn, all_array_compression=None if comp == 'none' else comp, **kw)


def block_labels(fn):
    """Compression labels of the binary blocks of an ASDF file (independent parse of the block headers)."""
    with open(fn, 'rb') as f:
        b = f.read()
    out = []
    p = b.find(b'\n...\n')
    p = b.find(b'\xd3BLK', p if p >= 0 else 0)
    while p >= 0 and p + 54 <= len(b):
        hs = struct.unpack('>H', b[p + 4:p + 6])[0]
        flags, label, alloc, used, dsize = struct.unpack('>I4sQQQ', b[p + 6:p + 38])
        out.append((label, used, dsize))
        q = p + 6 + hs + alloc
        if b[q:q + 4] != b'\xd3BLK':
            break
        p = q
    return out


# ------------------------------------------------------------------ pipes

class RecPipe(io.BytesIO):
    """Recording pipe: BytesIO.write takes any C-contiguous buffer exporter, exactly like sys.stdout.buffer.write."""

    def __init__(self):
        super().__init__()
        self.nwrites = 0
        self.final = None

    def write(self, b):
        self.nwrites += 1
        return super().write(b)

    def close(self):
        if self.final is None:
            self.final = self.getvalue()
        super().close()

    def received(self):
        return self.final if self.final is not None else self.getvalue()


class OsPipe:
    """A real pipe: the callee gets the BufferedWriter end, a thread drains the read end until EOF."""

    def __init__(self):
        import threading
        r, w = os.pipe()
        self.w = os.fdopen(w, 'wb')
        self.chunks = []

        def drain():
            with os.fdopen(r, 'rb', buffering=0) as fr:
                while True:
                    c = fr.read(65536)
                    if not c:
                        return
                    self.chunks.append(c)
        self.t = threading.Thread(target=drain, daemon=True)
        self.t.start()

    def finish(self):
        closed = self.w.closed
        if not closed:
            try:
                self.w.close()  # flushes whatever the callee left in the buffer: it counts as written
            except Exception:
                pass
        self.t.join(20)
        return closed, b''.join(self.chunks)


def call(mode, fns, fields, verbose=False):
    """Run the real code once. Returns (exception or None, bytes the consumer received, info)."""
    import contextlib
    if mode == 'cli':
        import subprocess
        import sys
        cmd = [sys.executable, '-m', 'abacusnbody.data.pipe_asdf']
        for f in fields:
            cmd += ['-f', f]
        cmd += list(fns)
        r = subprocess.run(cmd, capture_output=True, timeout=300)
        exc = None if r.returncode == 0 else RuntimeError(
            f'exit status {r.returncode}: ' + r.stderr.decode(errors='replace').strip().splitlines()[-1][:300]
            if r.stderr.strip() else f'exit status {r.returncode}')
        return exc, r.stdout, dict(etype='exit%d' % r.returncode if r.returncode else None)
    from abacusnbody.data import pipe_asdf
    pipe = RecPipe() if mode == 'rec' else OsPipe()
    exc = None
    err = io.StringIO()
    try:
        with contextlib.redirect_stderr(err):
            pipe_asdf.unpack_to_pipe(list(fns), list(fields), pipe=pipe if mode == 'rec' else pipe.w, verbose=verbose)
    except Exception as e:
        exc = e
    if mode == 'rec':
        closed, got = pipe.final is not None, pipe.received()
    else:
        closed, got = pipe.finish()
    return exc, got, dict(closed=closed, etype=type(exc).__name__ if exc is not None else None,
                          report=bool(err.getvalue()))


# ------------------------------------------------------------------ oracle

def pipe_ref(filecols, fields):
    """Expected stream. filecols: per file {name: (raw bytes, element count, item width)}."""
    out = []
    for f in fields:
        count = sum(fc[f][1] for fc in filecols)
        width = filecols[-1][f][2]
        out.append(struct.pack('=q', count))
        out.append(struct.pack('=i', width))
        for fc in filecols:
            out.append(fc[f][0])
    return b''.join(out)


def diagnose(got, filecols, fields):
    """First discrepancy between the received stream and the expected structure -> (kind, text)."""
    pos = 0
    for j, f in enumerate(fields):
        count = sum(fc[f][1] for fc in filecols)
        width = filecols[-1][f][2]
        if len(got) < pos + 12:
            return 'truncated', f'stream ends at byte {len(got)} inside the header of field #{j} {f!r}'
        c, = struct.unpack('=q', got[pos:pos + 8])
        w, = struct.unpack('=i', got[pos + 8:pos + 12])
        if c != count:
            return 'count', f'field #{j} {f!r}: int64 count is {c} (bytes {got[pos:pos + 8].hex()}), expected {count}'
        if w != width:
            return 'width', f'field #{j} {f!r}: int32 width is {w}, expected {width}'
        pos += 12
        for i, fc in enumerate(filecols):
            raw = fc[f][0]
            seg = got[pos:pos + len(raw)]
            if seg != raw:
                if len(seg) < len(raw):
                    return 'truncated', f'field #{j} {f!r} file #{i}: payload has {len(seg)} of {len(raw)} bytes'
                k = next(x for x in range(len(raw)) if seg[x] != raw[x])
                where = [(jj, ii) for jj, ff in enumerate(fields) for ii, fc2 in enumerate(filecols)
                         if fc2[ff][0] == seg and len(seg)]
                hint = f' (these are the bytes of field #{where[0][0]} file #{where[0][1]})' if where else ''
                return 'payload', (f'field #{j} {f!r} file #{i}: payload differs at byte {k}: got '
                                   f'{seg[k:k + 8].hex()} expected {raw[k:k + 8].hex()}{hint}')
            pos += len(raw)
    if len(got) != pos:
        return 'trailing', f'{len(got) - pos} bytes after the last field'
    return 'equal', ''


# ------------------------------------------------------------------ run

def worker_init():
    import gc
    import warnings
    warnings.simplefilter('ignore')
    import asdf  # noqa
    import numpy  # noqa
    from abacusnbody.data import pipe_asdf  # noqa
    gc.collect()
    gc.freeze()  # unpack_to_pipe calls gc.collect() per file and field; keep that cheap, do not touch the code


def build_files(d, case, drop=None):
    """Write the file set of a case. Returns (paths, filecols, per-label block counts)."""
    schema = SCHEMAS[case['schema']]
    si = sorted(SCHEMAS).index(case['schema'])
    fns, filecols = [], []
    labels = {}
    big = max(case['rows']) >= 500
    for fi, nrows in enumerate(case['rows']):
        cols, meta = {}, {}
        for ci, (name, dt, trail, fixed) in enumerate(schema):
            if drop == (fi, ci):
                continue
            arr, raw, nel, width = make_column(si, fi, ci, dt, trail, nrows if fixed is None else fixed)
            cols[name] = arr
            meta[name] = (raw, nel, width)
        comp = comp_of(case['comp'], fi)
        fn = os.path.join(d, f'f{fi}_{comp}.asdf')
        write_file(fn, cols, comp, big)
        bl = block_labels(fn)
        if len(bl) != len(cols):
            raise RuntimeError(f'harness: {fn} has {len(bl)} blocks for {len(cols)} columns')
        for lab, used, dsize in bl:
            if lab != _LABEL[comp]:
                raise RuntimeError(f'harness: block of {fn} carries label {lab!r}, wanted {_LABEL[comp]!r}')
            key = 'blocks_' + comp
            labels[key] = labels.get(key, 0) + 1
        fns.append(fn)
        filecols.append(meta)
    return fns, filecols, labels


def run(case):
    import shutil
    import tempfile
    d = tempfile.mkdtemp(prefix='vfc20', dir='/dev/shm')
    try:
        return {'ok': run_ok, 'nofile': run_nofile, 'nofield': run_nofield, 'partial': run_partial,
                'strided': run_strided}[case['kind']](case, d)
    finally:
        shutil.rmtree(d, ignore_errors=True)


def _tag(case):
    return f"schema={case.get('schema')} rows={case['rows']} comp={case['comp']} mode={case['mode']}"


def check_stream(probs, sigbase, tag, fields, exc, got, filecols):
    exp = pipe_ref(filecols, fields)
    if exc is not None:
        probs.append(dict(sig=f'{sigbase}:raised', msg=(
            f'{tag} fields={list(fields)}: {type(exc).__name__}: {exc}; {len(got)} of {len(exp)} expected bytes had been '
            f'written: {got[:48].hex()}')))
        return len(exp)
    if got != exp:
        kind, text = diagnose(got, filecols, fields)
        probs.append(dict(sig=f'{sigbase}:{kind}', msg=f'{tag} fields={list(fields)}: {text}; stream has {len(got)} bytes, '
                                                        f'expected {len(exp)}'))
    return len(exp)


def run_ok(case, d):
    fns, filecols, labels = build_files(d, case)
    names = [c[0] for c in SCHEMAS[case['schema']]]
    mode = case['mode']
    if case['first'] < 0:
        lists = [()]
    else:
        lists = field_lists(case['first'], case['repeats'])
    if mode == 'cli':
        by_len = {n: [l for l in lists if len(l) == n] for n in (1, 2, 3)}
        lists = [by_len[n][case['pick'] % len(by_len[n])] for n in (1, 2, 3)]
    probs, nt = [], []
    nbytes = nhdr = closed = reports = silent = 0
    sample = None
    for li, l in enumerate(lists):
        fields = [names[i] for i in l]
        verbose = bool(li & 1) and len(l) > 0
        exc, got, info = call(mode, fns, fields, verbose)
        n = check_stream(probs, f'ok:{mode}', _tag(case), fields, exc, got, filecols)
        nbytes += n
        nhdr += len(fields)
        closed += bool(info.get('closed'))
        reports += bool(info.get('report'))
        # diagnostics are not part of the property (they may go through logging, a different stream, or nowhere):
        # only counted.  What matters - that they never end up in the pipe - is decided by the stream comparison.
        silent += bool(mode != 'cli' and verbose and exc is None and not info.get('report'))
        if n > 12 * len(fields):
            nt.append((case['schema'], tuple(case['rows']), case['comp'], tuple(l)))
        if sample is None and case['rows'] == [4, 7] and case['comp'] == 'mix' and len(l) == 3 and 4 not in l:
            sample = dict(files=[dict(rows=r, compression=comp_of(case['comp'], i)) for i, r in enumerate(case['rows'])],
                          columns=[f"{n}: {dt} ({'n' if fx is None else fx}{''.join(',%d' % t for t in tr)}{',' if not tr else ''})"
                                   for n, dt, tr, fx in SCHEMAS[case['schema']]], fields=fields, mode=mode, stream_bytes=len(got),
                          stream_head=got[:20].hex(), matches_pipe_ref=(got == pipe_ref(filecols, fields)))
    # file arguments in other orders and with the same path given more than once (argument order, every occurrence counts)
    ndup = 0
    if mode != 'cli' and case['first'] >= 0:
        nf = len(fns)
        orders = [[0, 0]] + ([[1, 0], [0, 1, 0], [1, 1, 0]] if nf >= 2 else []) + ([[2, 0, 1], [2, 0, 2, 1]] if nf >= 3 else [])
        for order in orders:
            for l in lists[:6] + lists[-2:]:
                fields = [names[i] for i in l]
                exc, got, info = call(mode, [fns[i] for i in order], fields, False)
                n = check_stream(probs, f'ok:{mode}:file-order-or-duplicate', _tag(case) + f' file arguments {order}', fields, exc, got, [filecols[i] for i in order])
                nbytes += n
                ndup += 1
                nt.append((case['schema'], tuple(case['rows']), case['comp'], tuple(l), tuple(order)))
    extra = dict(labels)
    extra['evals_reordered_or_duplicated_files'] = ndup
    extra.update({f'evals_{mode}': len(lists), 'stream_bytes_compared': nbytes, 'field_headers_checked': nhdr,
                  'files_written': len(fns), 'pipe_closed_by_callee': closed, 'stderr_reports_seen': reports,
                  'verbose_calls_without_stderr_report': silent})
    return dict(problems=probs, evals=len(lists) + ndup, nt=nt, extra=extra, sample=sample,
                max=dict(max_open_fds=len(os.listdir('/proc/self/fd'))))


def check_error(probs, sigbase, tag, what, exc, got, etypes, info):
    if exc is None:
        probs.append(dict(sig=f'{sigbase}:no-error', msg=f'{tag} {what}: no error was reported; {len(got)} bytes were written'))
    elif got:
        probs.append(dict(sig=f'{sigbase}:bytes-before-error', msg=(
            f'{tag} {what}: {type(exc).__name__}: {exc} was raised after {len(got)} bytes had been written: {got[:40].hex()}')))
    if info.get('etype'):
        etypes.add(info['etype'])


def run_nofile(case, d):
    fns, filecols, labels = build_files(d, case)
    names = [c[0] for c in SCHEMAS[case['schema']]]
    mode = case['mode']
    os.mkdir(os.path.join(d, 'adir.asdf'))
    bad = {'missing': os.path.join(d, 'not_there.asdf'), 'dir': os.path.join(d, 'adir.asdf'),
           'missingdir': os.path.join(d, 'nodir', 'x.asdf')}
    flists = [(0,), (3, 4, 0)] if mode != 'cli' else [(1, 2)]
    probs, nt, etypes = [], [], set()
    n = 0
    for kind, path in bad.items():
        if mode == 'cli' and kind != ('missing', 'dir')[len(case['comp']) % 2]:
            continue
        for pos in range(len(fns) + 1):
            for how in ('insert', 'replace'):
                if how == 'replace' and (pos == len(fns) or mode == 'cli'):
                    continue
                cur = list(fns)
                if how == 'insert':
                    cur.insert(pos, path)
                else:
                    cur[pos] = path
                for l in flists:
                    exc, got, info = call(mode, cur, [names[i] for i in l])
                    n += 1
                    check_error(probs, f'nofile:{mode}', _tag(case), f'{kind} path {how}ed at file position {pos}, fields={l}',
                                exc, got, etypes, info)
                nt.append(('nofile', len(fns), kind, how, pos))
    return dict(problems=probs, evals=n, nt=nt, extra={f'evals_{mode}': n, 'error_cases_checked': n,
                                                       'files_written': len(fns), 'error_types': sorted(etypes)})


def run_nofield(case, d):
    fns, filecols, labels = build_files(d, case)
    names = [c[0] for c in SCHEMAS[case['schema']]] + [NOPE]
    mode = case['mode']
    lists = []
    for n in (1, 2, 3):
        for l in itertools.permutations(range(6), n):
            if 5 in l:
                lists.append(l)
    if mode == 'cli':
        lists = [(5,), (0, 5), (5, 4, 0), (1, 2, 5)]
    probs, nt, etypes = [], [], set()
    for l in lists:
        exc, got, info = call(mode, fns, [names[i] for i in l])
        check_error(probs, f'nofield:{mode}', _tag(case), f'unknown field at position {l.index(5)} of {[names[i] for i in l]}',
                    exc, got, etypes, info)
        nt.append(('nofield', len(fns), len(l), l.index(5)))
    return dict(problems=probs, evals=len(lists), nt=nt,
                extra={f'evals_{mode}': len(lists), 'error_cases_checked': len(lists), 'files_written': len(fns),
                       'error_types': sorted(etypes)})


def run_partial(case, d):
    df, dc = case['dropfile'], case['dropcol']
    fns, filecols, labels = build_files(d, case, drop=(df, dc))
    names = [c[0] for c in SCHEMAS[case['schema']]]
    mode = case['mode']
    lists = [l for f in range(5) for l in field_lists(f, False) if dc in l]
    probs, nt, etypes = [], [], set()
    for l in lists:
        exc, got, info = call(mode, fns, [names[i] for i in l])
        check_error(probs, f'partial:{mode}', _tag(case),
                    f'field {names[dc]!r} absent from file #{df} only, fields={[names[i] for i in l]}', exc, got, etypes, info)
    nt.append(('partial', len(fns), df, dc))
    # the lists that avoid the dropped column are still served completely
    rest = [l for l in field_lists((dc + 1) % 5, False) if dc not in l]
    for l in rest:
        fields = [names[i] for i in l]
        exc, got, info = call(mode, fns, fields)
        check_stream(probs, f'partial-ok:{mode}', _tag(case), fields, exc, got, filecols)
    n = len(lists) + len(rest)
    return dict(problems=probs, evals=n, nt=nt, extra={f'evals_{mode}': n, 'error_cases_checked': len(lists),
                                                       'files_written': len(fns), 'error_types': sorted(etypes)})


def run_strided(case, d):
    """1-D columns that are strided views into a shared block: x, y, z = base[:, k]; ev = v[::2]."""
    import numpy as np
    fns, filecols = [], []
    for fi, n in enumerate(case['rows']):
        base = np.frombuffer(raw_bytes(n * 3 * 4, 200 + fi), dtype='<f4').reshape(n, 3)
        v = np.frombuffer(raw_bytes(2 * n * 2, 220 + fi), dtype='>i2')
        cols = {'x': base[:, 0], 'y': base[:, 1], 'z': base[:, 2], 'ev': v[::2], 'whole': base}
        # multi-dimensional columns that are not stored row-major: the logical (row-major) element order is what a client expects
        fo = np.asfortranarray(np.frombuffer(raw_bytes(n * 3 * 8, 240 + fi), dtype='<f8').reshape(n, 3))
        tr = np.frombuffer(raw_bytes(3 * n * 4, 260 + fi), dtype='<i4').reshape(3, n).T
        cols.update(fort=fo, transp=tr)
        meta = {k: (np.ascontiguousarray(a).tobytes(), a.size, a.dtype.itemsize) for k, a in cols.items()}
        fn = os.path.join(d, f's{fi}.asdf')
        write_file(fn, cols, case['comp'])
        nblocks = len(block_labels(fn))
        if nblocks != 4:
            raise RuntimeError(f'harness: expected the 7 views to share 4 blocks, file has {nblocks}')
        fns.append(fn)
        filecols.append(meta)
    mode = case['mode']
    probs, nt = [], []
    lists = [('x',), ('y',), ('z',), ('ev',), ('whole', 'y'), ('z', 'x', 'ev'), ('fort',), ('transp',), ('transp', 'fort', 'x')]
    for l in lists:
        exc, got, info = call(mode, fns, list(l))
        check_stream(probs, 'strided-column', f"rows={case['rows']} comp={case['comp']} mode={mode} (columns stored as "
                     'strided views of a shared block)', l, exc, got, filecols)
        nt.append(('strided', tuple(case['rows']), case['comp'], l))
    return dict(problems=probs, evals=len(lists), nt=nt, extra={f'evals_{mode}': len(lists), 'strided_lists': len(lists),
                                                                'files_written': len(fns)})


def finalize(agg, tier):
    out = []
    for k in ('blocks_none', 'blocks_zlib', 'blocks_blsc', 'evals_rec', 'evals_ospipe', 'evals_cli', 'error_cases_checked'):
        if not agg.extra.get(k):
            out.append(dict(sig=f'harness:{k}-is-zero', msg=f'the run never exercised {k}'))
    return out


def BOUNDS(tier):
    t = tier == 'thorough'
    return dict(schemas=3 if t else 2, columns_per_schema=5, row_sets=[list(r) for r in (ROWS_T if t else ROWS_Q)],
                compressions=list(COMPS), field_lists_per_file_set='85 (155 with repeated columns on uncompressed/mixed sets)' if t else 85, max_files=3,
                item_widths=[1, 2, 4, 8] + ([16] if t else []))

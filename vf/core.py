"""E-ENUM: bounded exhaustive enumeration runner shared by every property check.

A check module defines
    PID            property id
    LEVEL          evidence level ('model_checking' | 'exploration')
    RULE           text: how cases are enumerated and what counts as non-trivial
    ASSUMPTIONS    list of str
    cases(tier, seed) -> iterable of JSON-able case dicts (complete, ordered simplest first)
    run(case) -> dict(problems=[{'sig','msg'}], nt=[hashable keys], states=int, transitions=int,
                      traces=int, evals=int, extra={counter: n})
    optional: WORKERS (int), CHUNK (int), finalize(agg) -> extra problems, selfcheck()

The runner enumerates *all* cases of the tier (never samples), shards them over a
spawn pool, aggregates counts, reproduces every failing case once more in the
parent before believing it, writes a replay file and the evidence file.
"""
import argparse
import hashlib
import importlib
import json
import multiprocessing as mp
import os
import re
import sys
import time
import traceback

ROOT = os.path.dirname(os.path.dirname(os.path.abspath(__file__)))
REPO = os.environ.get('VT_REPO', '/repo')
KNOWN = os.path.join(ROOT, 'known_findings.json')


def jdefault(o):
    import numpy as np
    if isinstance(o, np.generic):
        return o.item()
    if isinstance(o, np.ndarray):
        return o.tolist()
    if isinstance(o, (set, frozenset, tuple)):
        return list(o)
    if isinstance(o, bytes):
        return o.hex()
    return repr(o)


def canon(case):
    return json.dumps(case, sort_keys=True, default=jdefault)


def load_known():
    try:
        with open(KNOWN) as f:
            k = json.load(f)
    except FileNotFoundError:
        k = {}
    return k.get('open', []), k.get('fixed', [])


def _worker_init(modname, env=None):
    global _MOD
    # the per-pool environment (e.g. NUMBA_BOUNDSCHECK=1) is applied in the fresh spawn child
    # before numba is imported; the parent's environment is never touched
    os.environ.update(env or {})
    os.environ.setdefault('NUMBA_NUM_THREADS', '16')
    global _INIT_ERR
    _INIT_ERR = None
    _MOD = importlib.import_module(modname)
    if hasattr(_MOD, 'worker_init'):
        try:
            _MOD.worker_init()
        except Exception as e:      # reported per case (or as a stale driver), never by killing the pool
            _INIT_ERR = e


class Stale(Exception):
    """raised by a check when its own driver cannot reach the code (a private name or signature it relied on is gone):
    the case is skipped and counted, never reported as a violation"""


def stale_reason(e):
    """An exception that only says the DRIVER no longer fits the code (a private helper it called by name or by positional
    signature was renamed / moved / re-parameterised, or an interpreted twin cannot be built) is not evidence about the
    property: such cases are skipped, counted (cases_skipped_driver_stale) and announced with a NOTE line."""
    import traceback as tb
    name = type(e).__name__
    if name in ('TwinError',) or (isinstance(e, SyntaxError) and str(getattr(e, 'filename', '')).endswith(':twin')):
        return f'{name}: {e}'[:300]
    frames = tb.extract_tb(e.__traceback__)
    inner = frames[-1] if frames else None
    in_harness = inner is not None and (os.sep + 'vf' + os.sep) in inner.filename and 'abacusnbody' not in inner.filename
    if isinstance(e, (AttributeError, ImportError)) and in_harness and ('abacusnbody' in str(e) or "has no attribute '_" in str(e) or 'object has no attribute' in str(e)):
        return f'{name} in the driver ({os.path.basename(inner.filename)}:{inner.lineno}): {e}'[:300]
    msg = str(e)
    if isinstance(e, AttributeError) and re.search(r"module '(blosc|Corrfunc|parallel_numpy_rng)[\w.]*' has no attribute", msg):
        return f'the stand-in for a third-party module lacks an API the code now uses: {msg[:200]}'
    if isinstance(e, TypeError) and name != 'TypingError' and any(p in msg for p in (
            'missing a required argument', 'too many positional arguments', 'got an unexpected keyword argument',
            'multiple values for argument', 'required positional argument', 'takes from', 'positional arguments but',
            'too many arguments: expected', 'not enough arguments: expected',
            "missing argument '", 'some keyword arguments unexpected')):      # (the last two are numba's dispatcher wordings)
        return f'call signature no longer matches the driver: {msg[:200]}'
    return None


def _safe_run(mod, case):
    try:
        r = mod.run(case)
    except Stale as e:
        r = dict(problems=[], evals=0, extra=dict(cases_skipped_driver_stale=1), stale=str(e)[:300])
    except Exception as e:
        st = stale_reason(e)
        if st:
            return dict(problems=[], evals=0, extra=dict(cases_skipped_driver_stale=1), stale=st)
        # otherwise a crash is a problem of that case, never silence
        r = dict(problems=[dict(sig='exception:' + type(e).__name__,
                                msg=''.join(traceback.format_exception(e))[-2500:])])
    r.setdefault('problems', [])
    return r


_INIT_ERR = None


def _noop(i):
    time.sleep(0.05)
    return i


def _worker_run(chunk):
    out = []
    for case in chunk:
        if _INIT_ERR is not None:
            st = stale_reason(_INIT_ERR)
            if st:
                r = dict(problems=[], evals=0, extra=dict(cases_skipped_driver_stale=1), stale='worker_init: ' + st)
            else:
                r = dict(problems=[dict(sig='exception:worker_init:' + type(_INIT_ERR).__name__,
                                        msg=''.join(traceback.format_exception(_INIT_ERR))[-2000:])])
            out.append((case, r))
            continue
        out.append((case, _safe_run(_MOD, case)))
    return out


def run_in_env(modname, mod, case):
    """Run one case in-process, or in a fresh spawn child when the case names a special environment."""
    env = getattr(mod, 'ENVS', {}).get(case.get('env')) if isinstance(case, dict) else None
    if env is None and not getattr(mod, 'ISOLATE_REPRO', True):
        return _safe_run(mod, case)
    env = env or {}
    from concurrent.futures import ProcessPoolExecutor
    from concurrent.futures.process import BrokenProcessPool
    with ProcessPoolExecutor(1, mp_context=mp.get_context('spawn'), initializer=_worker_init,
                             initargs=(modname, env)) as ex:
        try:
            return ex.submit(_worker_run, [case]).result()[0][1]
        except BrokenProcessPool:
            return dict(problems=[dict(sig='crash:' + (mod.crash_sig(case) if hasattr(mod, 'crash_sig') else 'worker-died'),
                                       msg='child died')])


class Agg:
    def __init__(self):
        self.evals = 0
        self.cases = 0
        self.states = 0
        self.transitions = 0
        self.traces = 0
        self.nt = set()
        self.extra = {}
        self.failures = []  # (case, problem)
        self.samples = []
        self.fail_count = 0
        self.stale = []
        self.sig_count = {}
        self.sets = {}

    def add(self, case, r):
        self.cases += 1
        self.evals += r.get('evals', 1)
        self.states += r.get('states', 0)
        self.transitions += r.get('transitions', 0)
        self.traces += r.get('traces', 0)
        for k in r.get('nt', ()):
            self.nt.add(k if isinstance(k, (str, int)) else canon(k))
        for k, v in r.get('extra', {}).items():
            if isinstance(v, (list, set, tuple)):
                self.sets.setdefault(k, set()).update(
                    x if isinstance(x, (str, int)) else canon(x) for x in v)
            else:
                self.extra[k] = self.extra.get(k, 0) + v
        for k, v in r.get('max', {}).items():
            self.extra[k] = max(self.extra.get(k, v), v)
        for p in r['problems']:
            self.fail_count += 1
            n = self.sig_count[p['sig']] = self.sig_count.get(p['sig'], 0) + 1
            if n <= 2 and len(self.sig_count) <= 400:
                self.failures.append((case, p))
        if r.get('stale') and len(self.stale) < 5 and r['stale'] not in self.stale:
            self.stale.append(r['stale'])
        if r.get('sample') is not None and len(self.samples) < 6:
            self.samples.append(r['sample'])


def chunks(it, n):
    buf = []
    for x in it:
        buf.append(x)
        if len(buf) >= n:
            yield buf
            buf = []
    if buf:
        yield buf


def main(modname, argv=None):
    ap = argparse.ArgumentParser()
    ap.add_argument('--tier', default=os.environ.get('VERIF_TIER', 'quick'))
    ap.add_argument('--replay')
    ap.add_argument('--workers', type=int, default=None)
    ap.add_argument('--no-evidence', action='store_true')
    args = ap.parse_args(argv)
    tier = args.tier if args.tier in ('quick', 'thorough') else 'quick'
    try:
        seed = int(os.environ.get('VERIF_SEED', '0'))
    except ValueError:
        seed = 0
    t0 = time.time()
    mod = importlib.import_module(modname)
    pid = mod.PID

    if args.replay:
        with open(args.replay) as f:
            rp = json.load(f)
        if hasattr(mod, 'worker_init'):
            mod.worker_init()
        r = run_in_env(modname, mod, rp['case'])
        for p in r['problems']:
            print(f"REPLAY-PROBLEM sig={p['sig']}\n{p['msg']}")
        if r['problems']:
            print(f'VIOLATION property={pid} replay={args.replay}')
            return 1
        print('replay: no problem reproduced')
        return 0

    if hasattr(mod, 'selfcheck'):
        mod.selfcheck()

    agg = Agg()
    nworkers = args.workers or getattr(mod, 'WORKERS', 16)
    nworkers = max(1, min(nworkers, os.cpu_count() or 1))
    chunk = getattr(mod, 'CHUNK', 8)
    gen = mod.cases(tier, seed)
    capped = None
    envs = {None: {}}
    envs.update(getattr(mod, 'ENVS', {}))
    if nworkers == 1 and len(envs) == 1:
        if hasattr(mod, 'worker_init'):
            mod.worker_init()
        for case in gen:
            agg.add(case, _safe_run(mod, case))
    else:
        # one spawn pool per environment (e.g. NUMBA_BOUNDSCHECK=1), drained concurrently.
        # ProcessPoolExecutor: a worker killed by memory corruption breaks the pool loudly
        # instead of hanging it; the culprit case is then isolated in single-use children.
        import threading
        from concurrent.futures import ProcessPoolExecutor, wait, FIRST_COMPLETED
        from concurrent.futures.process import BrokenProcessPool
        ctx = mp.get_context('spawn')
        lock = threading.Lock()
        per = max(1, nworkers // len(envs))
        errs = []

        def mkpool(env, n):
            return ProcessPoolExecutor(n, mp_context=ctx, initializer=_worker_init, initargs=(modname, env))

        abort = threading.Event()   # set once a crashing case has been pinned down: verdict is already "violation"

        def isolate(env, chs):
            """Re-run lost chunks one by one, then case by case, in single-use children, until one crashing case is found."""
            found = 0
            for ch in chs:
                if found or abort.is_set():
                    with lock:
                        agg.extra['cases_not_run_after_crash'] = agg.extra.get('cases_not_run_after_crash', 0) + len(ch)
                    continue
                ex = mkpool(env, 1)
                try:
                    res = ex.submit(_worker_run, ch).result()
                    with lock:
                        for case, r in res:
                            agg.add(case, r)
                    ex.shutdown()
                    continue
                except BrokenProcessPool:
                    pass
                for case in ch:
                    if found:
                        break
                    ex = mkpool(env, 1)
                    try:
                        res = ex.submit(_worker_run, [case]).result()
                        r = res[0][1]
                        ex.shutdown()
                    except BrokenProcessPool:
                        r = dict(problems=[dict(sig='crash:' + (mod.crash_sig(case) if hasattr(mod, 'crash_sig') else 'worker-died'),
                                                msg='the worker process running this case died (memory corruption / abort)')])
                        found += 1
                        abort.set()
                    with lock:
                        agg.add(case, r)
            return found

        def drain(name, env):
            try:
                g = chunks((c for c in mod.cases(tier, seed) if c.get('env') == name), chunk)
                ex = mkpool(env, per)
                pending = {}
                broken = False
                done_iter = False
                while True:
                    if abort.is_set():
                        done_iter = True
                    while not done_iter and not broken and len(pending) < 3 * per:
                        try:
                            ch = next(g)
                        except StopIteration:
                            done_iter = True
                            break
                        pending[ex.submit(_worker_run, ch)] = ch
                    if not pending:
                        break
                    done, _ = wait(list(pending), return_when=FIRST_COMPLETED)
                    for fu in done:
                        ch = pending.pop(fu)
                        try:
                            res = fu.result()
                        except BrokenProcessPool:
                            broken = True
                            pending[fu] = ch
                            continue
                        with lock:
                            for case, r in res:
                                agg.add(case, r)
                    if broken:
                        # every outstanding future is lost; isolate, then continue with a new pool
                        lost = list(pending.values())
                        pending.clear()
                        ex.shutdown(wait=False, cancel_futures=True)
                        n = isolate(env, lost)
                        if n == 0:
                            with lock:
                                agg.add({'crash': True}, dict(problems=[dict(
                                    sig='crash:not-isolated', msg='a worker died but no single case reproduced it')]))
                        ex = mkpool(env, per)
                        broken = False
                ex.shutdown()
            except BaseException as e:  # noqa
                errs.append(e)
        ths = [threading.Thread(target=drain, args=(n, e)) for n, e in envs.items()]
        for t in ths:
            t.start()
        for t in ths:
            t.join()
        if errs:
            raise errs[0]
    if hasattr(mod, 'finalize'):
        for p in mod.finalize(agg, tier) or ():
            agg.fail_count += 1
            agg.failures.append(({'finalize': True}, p))

    # classify failures: reproduce, match against known findings
    open_k, _fixed = load_known()
    known_hit = {}
    new = []
    flaky = []
    seen_sig = {}
    if agg.failures and nworkers != 1 and hasattr(mod, 'worker_init'):
        mod.worker_init()
    for case, p in agg.failures:
        sig = p['sig']
        k = next((e for e in open_k if e['property'] == pid and e['sig'] == sig), None)
        if k is not None:
            known_hit.setdefault(sig, [k, agg.sig_count.get(sig, 1), case])
            continue
        if sig in seen_sig:
            continue
        # believe a failure only if it reproduces in this (fresh) process
        nrepro = sum(1 for v in seen_sig.values() if v[1].get('_reproduced')) 
        if nrepro < 4 and not case.get('finalize') and not case.get('crash') and not getattr(mod, 'NO_REPRO', False) and not sig.startswith('crash:'):
            r2 = run_in_env(modname, mod, case)
            if not any(q['sig'] == sig for q in r2['problems']):
                flaky.append((case, p))
                continue
            p['_reproduced'] = True
        seen_sig[sig] = [case, p, agg.sig_count.get(sig, 1)]
    rc = 0
    for sig, (k, n, case) in sorted(known_hit.items()):
        print(f"KNOWN-FINDING: property={pid} {k['what']} [sig={sig}; {n} failing cases this run]")
    os.makedirs(os.path.join(ROOT, 'replays', pid), exist_ok=True)
    for sig, (case, p, n) in sorted(seen_sig.items()):
        h = hashlib.sha1((sig + canon(case)).encode()).hexdigest()[:12]
        path = os.path.join(ROOT, 'replays', pid, h + '.json')
        with open(path, 'w') as f:
            json.dump(dict(property=pid, sig=sig, msg=p['msg'], case=case, tier=tier), f,
                      indent=1, default=jdefault)
        print(f"--- {pid} sig={sig} ({n} cases, first shown)\n{p['msg']}\ncase={canon(case)[:1500]}")
        print(f'VIOLATION property={pid} replay={path}')
        rc = 1
    for case, p in flaky:
        print(f"HARNESS-ERROR {pid}: failure did not reproduce sig={p['sig']} case={canon(case)[:600]}\n{p['msg']}")
        rc = 2 if rc == 0 else rc

    wall = time.time() - t0
    cov = dict(
        evaluations=agg.evals, distinct_nontrivial=len(agg.nt), rule=mod.RULE,
        samples=agg.samples or [None], exhaustive=(capped is None and not agg.extra.get('cases_not_run_after_crash') and not any(s.startswith('crash:') for s in agg.sig_count)), cases=agg.cases,
        failing_cases=agg.fail_count, known_findings=sorted(known_hit),
    )
    if mod.LEVEL == 'model_checking':
        cov.update(states=agg.states, transitions=agg.transitions,
                   traces_validated_against_impl=agg.traces)
    cov.update(agg.extra)
    for k, v in agg.sets.items():
        cov['distinct_' + k] = len(v)
    if hasattr(mod, 'BOUNDS'):
        cov['bounds'] = mod.BOUNDS(tier) if callable(mod.BOUNDS) else mod.BOUNDS
    ev = dict(property_id=pid, tier=tier, seed=seed, level=mod.LEVEL, coverage=cov,
              assumptions=list(getattr(mod, 'ASSUMPTIONS', [])), wall_s=round(wall, 2),
              violations=len(seen_sig))
    if not args.no_evidence:
        os.makedirs(os.path.join(ROOT, 'evidence'), exist_ok=True)
        with open(os.path.join(ROOT, 'evidence', pid + '.json'), 'w') as f:
            json.dump(ev, f, indent=1, default=jdefault)
    for msg in agg.stale:
        print(f'NOTE {pid}: driver could not reach part of the code, cases skipped: {msg}')
    print(f"{pid} tier={tier} cases={agg.cases} evals={agg.evals} nontrivial={len(agg.nt)} "
          f"states={agg.states} transitions={agg.transitions} traces={agg.traces} "
          f"extra={json.dumps(agg.extra, default=jdefault)} wall={wall:.1f}s rc={rc}")
    # vacuity guard: a run that explored nothing must not pass silently
    nstale = agg.extra.get('cases_skipped_driver_stale', 0)
    if rc == 0 and nstale and (nstale >= agg.cases - 1 or len(agg.nt) < 2):
        print(f'NOTE {pid}: the driver could not reach the code under test in {nstale} of {agg.cases} cases; nothing was decided by this run')
    elif rc == 0 and (agg.cases == 0 or len(agg.nt) < 2):
        print(f'HARNESS-ERROR {pid}: vacuous run (cases={agg.cases}, nontrivial={len(agg.nt)})')
        rc = 2
    return rc

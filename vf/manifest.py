"""Writes /verif/MANIFEST.json from the table below (python3 -m vf.manifest)."""
import json
import os

ROOT = os.path.dirname(os.path.dirname(os.path.abspath(__file__)))
ALL = ['C%02d' % i for i in range(1, 21)]

# id -> (category, technique, level text, level note, design ref)
CHECKS = {
 'C01': ('exploration',
         'exhaustive enumeration of synthetic catalogs (all halo-variant sequences per superslab up to the bound) x loader options on the real loader, checked against an ownership model',
         'Every catalog built from the halo-variant alphabet (particle counts 0-2, L0 gaps, merged ranges, junk, cleaned-away) with <=S superslabs of <=H halos is loaded under every core option, rich catalogs under every option; each row\'s slice must decode to exactly the record identities the model assigns.',
         'asdf.open served by an in-memory double (validated against real ASDF files, uncompressed and blsc, in the same run); identities carried in record bits',
         'DESIGN.md 4/C01'),
 'C02': ('exploration',
         'exhaustive differential enumeration of field lists (singles, ordered pairs, ordered cluster subsets, all, default) x cleaned x subsample configs on the real loader',
         'Every valid column alone, in every ordered pair with the probe set (thorough: with every column), every ordered subset of each derived-column cluster: the values must equal the fields=all load bit for bit and no request may raise.',
         'the all-fields load is the reference; in-memory asdf double',
         'DESIGN.md 4/C02'),
 'C03': ('exploration',
         'exhaustive enumeration of (catalog, ordered file subset, per-superslab row mask, option) tuples on the real loader with a recording filter function; ownership model + differential masked-concatenation oracle',
         'All ordered non-empty file subsets and the directory, all 2^n row masks (keep-none and keep-all included) for every catalog of the bounded family: the result must equal the masked concatenation of the single-file loads, slices re-indexed contiguously, and the filter must have been shown N = cleaned count.',
         'in-memory asdf double; filter called once per file in order',
         'DESIGN.md 4/C03'),
 'C05': ('exploration',
         'exhaustive sweep of every int16 value of every compressed ratio column x reference values x (BoxSize, VelZSpace_to_kms) pairs x conversion on/off x cleaned on/off, against a kind table written from the statement',
         'Each column is checked three ways: converted/unconverted equals the kind factor, stored value equals the raw file column (ratio x reference), and the principal dispersions square-sum to sigmav3d^2.',
         'kind table (length / velocity / ratio / unchanged) is the specification; float32 tolerance 4 ulp',
         'DESIGN.md 4/C05'),
 'C04': ('exploration',
         'complete sweep of the finite word domains (quick: every 20-bit position and 12-bit velocity field x backgrounds per column; thorough: all 2^32 RVint words per column; every value of every PID field x 16 backgrounds) through the real decoders, against an independent vectorised reference',
         'Whole-domain enumeration of RVint words and per-field enumeration of aux words x backgrounds x output selections x dtypes x Box/ppd; coverage counters are verified against the closed-form domain sizes in finalize().',
         'reference decoders written from the documented bit layout (vf/c04_ref.py); PID words per field x 16 backgrounds rather than 2^64',
         'DESIGN.md 4/C04'),
 'C06': ('exploration',
         'exhaustive enumeration of single particles on a per-axis coordinate alphabet (cell centres, half-cell edges +-ulp, domain boundaries, out-of-range with wrap) x grid shapes x dtypes x offsets x weights x thread/partition settings through tsc_parallel, _tsc_scatter, cic_serial and get_field, against the continuous TSC/CIC kernel evaluated in long double; pairs/multi-particle sets for additivity and rolls',
         'Every cell of every deposit is compared with the continuous kernel (zero tolerance outside the support, bitwise where inputs are exactly representable), plus conservation, non-negativity, additivity, accumulation and roll-by-whole-cells including across the boundary and at the value BoxSize; reduced sweeps are repeated under NUMBA_BOUNDSCHECK=1 with guard zones.',
         'reference kernel in vf/c06_ref.py; grids up to 8 cells per axis; TSC thin grids tracked in C11, stripe concurrency in C07',
         'DESIGN.md 4/C06'),
 'C07': ('model_checking',
         'exhaustive configuration enumeration on the real tsc_parallel front end + dynamic partial-order reduction (Bernstein independence of every concurrently processed stripe pair on the access log of the real _tsc_parallel/_tsc_scatter twins) + stateless CHESS-style schedule exploration with preemption bounding',
         'Every (grid size, nthread, npartition incl. default, axis) is decided by the real front end; for every accepted multi-stripe configuration the twins run on a boundary probe set and all same-phase stripe pairs are shown to touch disjoint cells, which makes all interleavings one Mazurkiewicz trace; small configurations and any conflicting one are additionally explored schedule by schedule (bounds 0,1,2) against the serial deposit. The explorer is self-checked on a seeded unsafe partition of the real kernel at every run.',
         'element-atomic sequentially consistent grid loads/stores; one virtual thread per prange iteration; interpreted twin = kernel source (conformance: compiled real-thread runs vs one thread)',
         'DESIGN.md 3.2-3.4, 4/C07'),
 'C08': ('exploration',
         'exhaustive enumeration of mesh sizes x bin-edge families x mu/pi binnings x multipole sets x thread counts on the compiled kernels and on interpreted twins under four virtual thread schedules, against a full-mesh mode enumeration (modes_ref) with feasibility solving for modes within 2 ulp of an edge',
         'For every configuration of the alphabet the integer mode counts must be reproducible by some assignment of near-edge shells, and the weighted sums (power, k, Legendre) must match within a float32 error bound; counts must be identical for every thread count and every virtual schedule, and per-thread accumulator rows must be private.',
         'reference enumerates the full n1d^3 mesh with fftfreq wavenumbers in float64; on-edge shells may fall either side',
         'DESIGN.md 4/C08'),
 'C09': ('exploration',
         'exhaustive factorial host/particle tables (mass x multiplicity/weight x secondary ranks x stored random on/around every cumulative slice marker) x all 7 tracer subsets x parameter sets x RSD x observer x thread count through gen_gal_cat, every host decided and every galaxy row compared by an independent plain-numpy HOD reference',
         'Each host/particle of each run is decided (must / may / must not carry tracer T) by the reference threshold rule with widths from the package occupation functions; every galaxy is traced back to its host (id, mass, position, velocity-bias formulas, RSD shift and wrap); cross-run relations: earlier tracers bit-identical when a later one is enabled, nesting in ic, centrals first with Ncent.',
         'randoms within 1e-12 of a slice edge may fall either side; stored random exactly 0 before a disabled LRG slot tolerated; NFW path out of scope',
         'DESIGN.md 4/C09'),
 'C10': ('model_checking',
         'exhaustive enumeration of host/particle table sizes x tracer subsets x thread counts: compiled with real threads (bitwise vs one thread) + interpreted twins of gen_gals/gen_cent/gen_sats/fast_concatenate/_searchsorted_parallel with dynamic partial-order reduction (pairwise Bernstein independence of prange bodies), uninitialised-read and every-output-written checks, and real execution of all n! body orders for Nthread <= 4',
         'For every (H, P) in the size alphabet (0, 1, fewer than threads, not divisible by threads) and every tracer subset the catalogue is bitwise identical for Nthread 1..16; the twins show that the per-thread bodies of every parallel region are pairwise independent (so every interleaving is the same Mazurkiewicz trace), that no output element is left unwritten or read before written, for virtual thread counts up to 40.',
         'Bernstein independence => schedule independence; twin vs compiled within 4 ulp (fastmath), integers exact',
         'DESIGN.md 3.3, 4/C10'),
 'C11': ('exploration',
         'kernel x boundary-input alphabet, every case executed as interpreted twin (numpy IndexError == numba out-of-bounds) and as compiled kernel in a NUMBA_BOUNDSCHECK=1 process',
         'Full product per kernel of empty/single/zero-particle/one-cell-thick/boundary/out-of-range inputs inside the documented preconditions; any IndexError (twin) or IndexError/SystemError (bounds-checked build) is a violation; worker crashes are isolated and reported.',
         'numpy index semantics == numba bounds semantics; boundscheck build faithful apart from the checks; HOD passes covered by C10',
         'DESIGN.md 3.6, 4/C11'),
 'C12': ('exploration',
         'exhaustive enumeration of subsample file sets (every permutation of halo ids over 1-3 slabs, 0-2 particles per halo, three id universes) x 16 option-flag combinations x tracer sets on the real AbacusHOD constructor; every attribute is a tagged function of the halo id',
         'After the real constructor each per-halo array at row r must equal attr(hid[r], column) exactly, ids strictly increasing, and hid[pinds[p]] == phid[p].',
         'light runs replace numpy.histogramdd (mass-function tables, outside the property) by a shape-preserving double; 1 in 12 file sets runs unmodified',
         'DESIGN.md 4/C12'),
 'C13': ('exploration',
         'exhaustive metamorphic enumeration: estimator configurations (nmesh x cell size x TSC/CIC x compensated x interlaced x binning x poles x dtype) x particle sets x a generating set of transformations (permutations, whole-cell translations on every axis, thread counts, pos2 = pos) through calc_power',
         'Every transformation of every particle set in every configuration must leave power/poles/k_avg unchanged within 3e-5 of max|P| (float32; noise floor re-measured each run and required <= 3e-6) and N_mode, k/mu ranges, shapes and dtypes exactly unchanged, also across particle sets; identical repeated calls must agree bitwise (race probe with its own signature).',
         'tolerances empirical (measured noise floor 1.6e-6); translations use exactly representable cell sizes',
         'DESIGN.md 4/C13'),
 'C14': ('model_checking',
         'explicit-state BFS over the real decompress loop (state read from the parser frame locals; transitions = next chunk length 0..remaining; every transition a real execution) + unmerged enumeration of all 2^(L-1) chunk compositions of short streams',
         'For each stream produced by the real compress the reachable parser states (offset, _size, _pos, _partial_len, buffered bytes, bytesout, output) are enumerated completely and every transition executed; the invariant (output = completed frames, final length/bytes = payload) is evaluated in every state. Merging is validated by brute-force enumeration of every composition of mini-frame streams.',
         'blosc codec replaced by a strict self-delimiting double; the frame locals named in the check are the whole loop state',
         'DESIGN.md 3.5, 4/C14'),
 'C15': ('model_checking',
         'complete sweep of all 2^24 bit patterns of each 3-byte group (particle and header records) + explicit-state enumeration of all header/particle sequences to depth 5/7 against an independent pack9 reference decoder',
         'Nibble layer: every pattern of every 12-bit field pair; state machine: every sequence over {h1,h2,p1,p2} up to the depth bound incl. empty and particle-before-header, each replayed from scratch in 12 output configurations with a prefix-transition check; encode->decode round trip within one quantum.',
         'independent reference in vf/c15_ref.py (self-checked bijection on all 2^24 patterns); cpd<=0 headers excluded',
         'DESIGN.md 4/C15'),
 'C16': ('exploration',
         'exhaustive enumeration of real ASDF particle files (column type x header kind x sizes x compression) x every subset/order of loadable columns x deprecated flag combinations x colname modes on read_asdf, against reference decoders',
         'Exact column set, row count, dtype, values equal to the direct reference decode and bitwise identical across co-requests, meta == header (+SubsampleFraction for AbacusSummit light cones), ambiguity/absence raises unless colname is given.',
         'deprecated load_pos/load_vel semantics as stated in ASSUMPTIONS; aux-only reads on rv files tolerated',
         'DESIGN.md 4/C16'),
 'C17': ('model_checking',
         'exhaustive enumeration of small particle sets on a stripe-boundary alphabet x configurations, compiled with real threads and as interpreted twin with dynamic partial-order reduction (pairwise Bernstein independence of per-thread bodies, exactly-once output writes)',
         'All sequences up to length 2-3 over the boundary alphabet and structured families up to N=9, for every npartition/coord/dtype/weights/sort and thread counts incl. nthread > N: permutation with weights attached, stripe membership by exact rational floor, monotone starts, sortedness; independence of the bodies of all three parallel regions proves schedule-independence.',
         'Bernstein independence => single Mazurkiewicz trace; 4-ulp tolerance at stripe boundaries',
         'DESIGN.md 3.3, 4/C17'),
 'C18': ('exploration',
         'complete sweep of the 65340-code input domain in three batchings and through the catalog loader; geometric oracle',
         'Whole-domain enumeration: orthonormality to 1e-12, handedness, pairwise distinctness, hemisphere covering within the 4 degree cell.',
         'valid codes are 0..65339; covering measured on a 2e5-point net',
         'DESIGN.md 4/C18'),
 'C19': ('exploration',
         'exhaustive enumeration of the finite input product (lengths x flags x offsets x dtypes x output lengths) on the interpreted twin, the compiled kernel in guard zones and the NUMBA_BOUNDSCHECK=1 build',
         'Every (length 0..9, initial, final, offset, dtype pairing, output length) combination is executed three ways and compared with numpy.cumsum; the loop body has no length-dependent branch beyond N=0/1, so 0..9 covers every path.',
         'numpy.cumsum as reference; numba boundscheck build faithful to the production build apart from the checks',
         'DESIGN.md 4/C19'),
 'C20': ('exploration',
         'exhaustive enumeration of ASDF file sets (1-3 files, 5 columns of widths 1-8, shapes incl. empty and multi-dimensional, both endiannesses, none/zlib/blsc) x all ordered field lists of length <= 3 x {recording pipe, real os.pipe, CLI subprocess} against a byte-level reference stream; error alphabet (missing file/field at every position) must raise with zero bytes written',
         'The emitted byte stream must equal count(int64) | width(int32) | concatenated raw bytes per field in request order; every error case must leave the consumer with zero bytes.',
         'payload bytes generated first and arrays are views of them; compression labels verified in the written files',
         'DESIGN.md 4/C20'),
}

# alphabet extensions made after the independent red-team waves and the soundness review (DESIGN.md 11.2b, 11.2c, 11.5)
EXT = {
 'C01': ' Also: B named before A, empty original particle files, light-cone layout, passthrough with an explicit raw column list.',
 'C02': ' Also: a second load with the same list object, the subsample index-column groups, and the same sweep with passthrough=True over the raw column names.',
 'C03': ' Also: main-progenitor columns (cleaned), files added/removed between two loads, duplicate and mixed-catalog lists (incl. a sibling catalog whose directory name extends the first one\'s) refused or exactly concatenated.',
 'C04': ' Also: strided / Fortran / record-field / other-dtype supplied outputs, near-integer float ppd, non-native byte order input.',
 'C05': ' Also: request orders of ratio columns and their references, decoy catalogs loaded first in the same process, integer BoxSize, headers in which exactly one unit factor is 1.',
 'C07': ' Also: an end-to-end independence run of the whole interpreted front end (wrap, partition, weights, kernel) per accepted configuration with periodic images, distinct weights, sort, and an input order unrelated to the stripes; emptied stripes; the stripe/thread count actually in effect is what is examined.',
 'C08': ' Also: odd multipoles, monopole not first, exact zeros in the mesh, a large mesh with closed-form counts.',
 'C14': ' Also: call sequences on one compressor object, typed outputs, records wider than 255 bytes; two threads on one object is advisory only.',
 'C15': ' Also: non-contiguous / other-dtype supplied outputs, two concurrent decodes (module state), streams of 6.3-10.9 million records made of copies of a short stream.',
 'C17': ' Also: every length 0..128 (1024) x thread count 1..16, > 2^16 stripes, 100003 particles, weights of another dtype than the positions.',
 'C18': ' Also: input left unmodified / decoded twice, columns longer than the code domain at every length around 2^10..2^18, line-level interleavings of concurrent first decodes.',
 'C19': ' Also: non-integral float input into integer output, concat_to_arr offsets surviving later calls.',
 'C20': ' Also: file arguments repeated and reordered, column-major and strided columns, field lists that repeat a field.',
}

NOT_YET = 'check not built yet in this session (planned, DESIGN.md section 4)'


def main():
    checks = []
    for pid in ALL:
        if pid not in CHECKS:
            continue
        cat, tech, text, note, ref = CHECKS[pid]
        checks.append(dict(
            property_id=pid,
            quick_cmd=f'./check {pid} --tier quick',
            thorough_cmd=f'./check {pid} --tier thorough',
            evidence_file=f'/verif/evidence/{pid}.json',
            replay_cmd_template=f'./check {pid} --replay {{path}}',
            engine='vf.core (E-ENUM) + vf/checks/%s.py' % pid.lower(),
            level_claimed=dict(category=cat, text=text + EXT.get(pid, ''), design_ref=ref),
            level_note=note,
            technique=tech,
        ))
    m = dict(
        version=1,
        setup_cmd='./setup.sh',
        hooks=dict(guard='ABACUSUTILS_VERIF', enable='no source hooks are needed; checks import /repo directly (PYTHONPATH)',
                   baseline_off_cmd='cd /repo && /venv/bin/python -m pytest -ra -q -p no:cacheprovider --timeout=900 --continue-on-collection-errors',
                   source_commits=[], add_only=True),
        engines=[
            dict(name='E-ENUM', path='vf/core.py', serves_properties=sorted(CHECKS),
                 kind_free_text='bounded exhaustive enumeration runner: spawn pools per environment, crash isolation, reproduce-before-report, replay files, evidence'),
            dict(name='E-TWIN/E-POR', path='vf/twin.py', serves_properties=['C07', 'C08', 'C10', 'C11', 'C17'],
                 kind_free_text='interpreted twins of numba kernels (own source, prange lowered to closures, shadow arrays with per-element identity) + dynamic partial-order reduction: pairwise Bernstein independence of parallel-region bodies on the access log'),
            dict(name='E-SCHED', path='vf/twin.py', serves_properties=['C07', 'C18'],
                 kind_free_text='stateless CHESS-style schedule exploration with preemption bounding over baton-passing threads (array-access points for kernel twins, source-line points for pure-Python callables); self-checked against a DP schedule count and seeded races'),
            dict(name='E-BFS', path='vf/checks/c14.py', serves_properties=['C14', 'C15'],
                 kind_free_text='explicit-state search over the real parser: state read from frame locals / last header, transitions = next chunk / next record, every transition a real execution'),
            dict(name='catalog generator + asdf double', path='vf/catgen.py', serves_properties=['C01', 'C02', 'C03', 'C05', 'C18'],
                 kind_free_text='synthetic CompaSO catalogs whose particle records carry their identity; in-memory asdf.open double validated against real ASDF files'),
        ],
        checks=checks,
        notes='All verdicts come from complete enumeration of stated finite spaces on the real code; see DESIGN.md.',
        not_applicable=[dict(property_id=p, reason=NOT_YET) for p in ALL if p not in CHECKS],
    )
    with open(os.path.join(ROOT, 'MANIFEST.json'), 'w') as f:
        json.dump(m, f, indent=1)


if __name__ == '__main__':
    main()

"""Reference models, written from the format descriptions in the properties - never by calling the code under test."""
import numpy as np


# ---------------------------------------------------------------- RVint
def rvint_ref(words, box, dtype=np.float64):
    """words: int32 array (...). pos = signed upper 20 bits * box/1e6 ; vel = (low 12 bits - 2048) * 6000/2048."""
    w = np.asarray(words).astype(np.int64)
    u = w & 0xFFFFFFFF
    hi = u >> 12                      # 20-bit field
    hi = np.where(hi >= (1 << 19), hi - (1 << 20), hi)   # two's complement of 20 bits
    lo = u & 0xFFF
    pos = hi.astype(np.float64) * (float(box) / 1e6)
    vel = (lo.astype(np.float64) - 2048.0) * (6000.0 / 2048.0)
    return pos, vel


def rvint_encode(pos_unit, vel_kms):
    """pos in unit box [-0.5,0.5) -> signed 20 bits (1e6 quanta per box); vel -> 12 bits."""
    hi = np.round(np.asarray(pos_unit, dtype=np.float64) * 1e6).astype(np.int64)
    lo = np.round(np.asarray(vel_kms, dtype=np.float64) * (2048.0 / 6000.0)).astype(np.int64) + 2048
    w = ((hi & 0xFFFFF) << 12) | (lo & 0xFFF)
    return w.astype(np.uint32).view(np.int32) if isinstance(w, np.ndarray) else np.uint32(w).view(np.int32)


# ---------------------------------------------------------------- packed PID
def pid_ref(packed, box=1.0, ppd=1):
    p = np.asarray(packed, dtype=np.uint64)
    pi = [int(x) for x in p.ravel()]
    ix = np.array([x & 0x7FFF for x in pi], dtype=np.int64)
    iy = np.array([(x >> 16) & 0x7FFF for x in pi], dtype=np.int64)
    iz = np.array([(x >> 32) & 0x7FFF for x in pi], dtype=np.int64)
    tagged = np.array([(x >> 48) & 1 for x in pi], dtype=np.int64)
    dens = np.array([((x >> 49) & 0x3FF) ** 2 for x in pi], dtype=np.int64)
    pid = np.array([x & 0x00007FFF7FFF7FFF for x in pi], dtype=np.int64)
    idx = np.stack([ix, iy, iz], axis=-1) if len(pi) else np.zeros((0, 3), dtype=np.int64)
    lpos = idx.astype(np.float64) * (float(box) / ppd) - float(box) / 2
    return dict(pid=pid, lagr_idx=idx, lagr_pos=lpos, tagged=tagged, density=dens)


def make_packedpid(ix, iy, iz, tagged, dens10, junk=0):
    """junk: bits allowed only at unused positions 15, 31, 47, 59-63."""
    UNUSED = (1 << 15) | (1 << 31) | (1 << 47) | (0x1F << 59)
    return ((ix & 0x7FFF) | ((iy & 0x7FFF) << 16) | ((iz & 0x7FFF) << 32) | ((tagged & 1) << 48)
            | ((dens10 & 0x3FF) << 49) | (junk & UNUSED))


# ---------------------------------------------------------------- pack9
def pack9_encode_header(cpd, vscale_code, ci, cj, ck):
    """A header record: first byte 0xFF (=> short0 >= 0xFF0-2048).  shorts: [s0, cpd, vscale, i, j, k] biased by 2048... """
    raise NotImplementedError


def ulp_close(a, b, ulps, dtype):
    a = np.asarray(a, dtype=np.float64)
    b = np.asarray(b, dtype=np.float64)
    eps = np.finfo(dtype).eps
    tol = ulps * eps * np.maximum(np.maximum(np.abs(a), np.abs(b)), np.finfo(dtype).tiny)
    return np.abs(a - b) <= tol

"""python3 -m vf.report : markdown table of what the last run of every check covered (read from evidence/*.json)."""
import json, glob, os
ROOT = os.path.dirname(os.path.dirname(os.path.abspath(__file__)))
rows = []
for f in sorted(glob.glob(os.path.join(ROOT, 'evidence', 'C*.json'))):
    e = json.load(open(f)); c = e['coverage']
    rows.append((e['property_id'], e['level'], e['tier'], c.get('cases'), c.get('evaluations'), c.get('distinct_nontrivial'),
                 c.get('states', 0), c.get('transitions', 0), c.get('traces_validated_against_impl', 0), e['wall_s']))
print('| id | level | tier | cases | evaluations | distinct non-trivial | states | transitions | traces vs impl | wall s |')
print('|---|---|---|---|---|---|---|---|---|---|')
for r in rows:
    print('| ' + ' | '.join(str(x) for x in r) + ' |')

"""python3 -m vf.seedtable : rewrite the seeded-change tables of DESIGN.md 11.5 from seeded/*/meta.json and check_*.log
(the 'history' column is kept from the existing rows; new seeds get the text in meta['history'] if present)."""
import json, glob, os, re, sys
ROOT = os.path.dirname(os.path.dirname(os.path.abspath(__file__)))


def sigs(path, n=3):
    out = []
    if os.path.exists(path):
        for line in open(path):
            m = re.match(r'--- \w+ sig=(\S+)', line)
            if m and m.group(1) not in out:
                out.append(m.group(1))
    return out[:n]


def row(d, hist):
    m = json.load(open(os.path.join(d, 'meta.json')))
    name = os.path.basename(d)
    parts = []
    for c, r in m['our_checks'].items():
        s = sigs(os.path.join(d, f'check_{c}.log'))
        if r['violations']:
            parts.append(f"{c}: " + ', '.join(f'`{x}`' for x in s))
        else:
            parts.append(f"{c}: not reported")
    return name, m.get('wave', 1), f"| {name} | {'; '.join(parts)} | {m.get('history') or hist.get(name, '')} |", m


def main():
    design = open(os.path.join(ROOT, 'DESIGN.md')).read()
    hist = {}
    for line in design.splitlines():
        m = re.match(r'\| (C\d\d-[A-Z]) \| .* \| (.*) \|$', line)
        if m:
            hist[m.group(1)] = m.group(2).strip()
    rows = {}
    stats = {}
    for d in sorted(glob.glob(os.path.join(ROOT, 'seeded', 'C*-*'))):
        name, wave, text, m = row(d, hist)
        rows.setdefault(wave, []).append(text)
        st = stats.setdefault(wave, dict(n=0, confirmed=0, reported=0))
        st['n'] += 1
        st['confirmed'] += bool(m.get('confirmed'))
        st['reported'] += any(r['violations'] for r in m['our_checks'].values())
    for w in sorted(rows):
        print(f'<!-- wave {w}: {stats[w]} -->')
        print('| seed | reported as (first signatures) | history |\n|---|---|---|')
        print('\n'.join(rows[w]))
        print()


if __name__ == '__main__':
    main()

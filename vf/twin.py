"""E-TWIN / E-POR / E-SCHED: interpreted twins of numba kernels with shadow arrays, independence checking
and stateless schedule exploration with preemption bounding.

A twin is the kernel's own source (py_func, re-read from the working tree) executed by CPython with a
substituted globals dict: nested dispatchers -> twins, `numba` -> a virtual object, `np` -> a proxy that turns
arrays allocated in the sequential part of a kernel into tracked roots, and every
`for i in numba.prange(n): BODY` lowered to `def __body(i): BODY; __rt.parallel_for(n, __body)`.
"""
import ast
import inspect
import itertools
import sys
import textwrap
import threading
import types

import numpy as np


# ============================================================================ shadow arrays
class ShadowArray(np.ndarray):
    """ndarray that knows, for each of its elements, the flat index in its root buffer (idmap)."""

    def __new__(cls, arr, rt, root, idmap):
        obj = np.asarray(arr).view(cls)
        obj._rt, obj._root, obj._idmap = rt, root, idmap
        return obj

    def __array_finalize__(self, obj):
        if obj is None:
            return
        self._rt = getattr(obj, '_rt', None)
        self._root = getattr(obj, '_root', None)
        self._idmap = None   # must be set by whoever derives a view; None => untracked temporary

    # -- plain view of the data
    def _plain(self):
        return self.view(np.ndarray)

    def _derive(self, res, op):
        """res = op(plain self). If it aliases our memory it is a tracked view, else a private temporary/new root."""
        if isinstance(res, np.ndarray) and res.ndim >= 0 and res.size >= 0 and self._idmap is not None and not np.isscalar(res):
            if res.size and np.shares_memory(res, self._plain()):
                try:
                    im = op(self._idmap)
                except Exception:
                    im = None
                if im is not None and im.shape == res.shape:
                    return ShadowArray(res, self._rt, self._root, im)
                raise TwinError('cannot derive idmap for a view')
            if res.size == 0 and isinstance(res, np.ndarray):
                return ShadowArray(res, self._rt, self._root, np.zeros(res.shape, dtype=np.int64))
        return res

    def __getitem__(self, key):
        key = _plainkey(key)
        res = self._plain()[key]
        if self._idmap is None:
            return res
        if isinstance(res, np.ndarray) and res.size and np.shares_memory(res, self._plain()):
            return ShadowArray(res, self._rt, self._root, self._idmap[key])
        if isinstance(res, np.ndarray) and res.size == 0:
            return ShadowArray(res, self._rt, self._root, np.zeros(res.shape, dtype=np.int64))
        # scalar or fancy-index copy: this is a read of the selected elements
        self._rt.access(self._root, self._idmap[key], 0)
        return res

    def __setitem__(self, key, val):
        key = _plainkey(key)
        if isinstance(val, ShadowArray) and val._idmap is not None:
            val._rt.access(val._root, val._idmap, 0)
            val = val._plain()
        if self._idmap is not None:
            self._rt.access(self._root, self._idmap[key], 1)
        self._plain()[key] = val

    def __array_ufunc__(self, ufunc, method, *inputs, out=None, **kw):
        ins = []
        for x in inputs:
            if isinstance(x, ShadowArray):
                if x._idmap is not None:
                    x._rt.access(x._root, x._idmap, 0)
                x = x._plain()
            ins.append(x)
        if out is not None:
            o2 = []
            for x in out:
                if isinstance(x, ShadowArray):
                    if x._idmap is not None:
                        x._rt.access(x._root, x._idmap, 1)
                    x = x._plain()
                o2.append(x)
            kw['out'] = tuple(o2)
        res = getattr(ufunc, method)(*ins, **kw)
        return self._rt.adopt(res)

    def __array_function__(self, func, types_, args, kwargs):
        def strip(x):
            if isinstance(x, ShadowArray):
                if x._idmap is not None:
                    x._rt.access(x._root, x._idmap, 0)
                return x._plain()
            if isinstance(x, (list, tuple)):
                return type(x)(strip(y) for y in x)
            return x
        src = [a for a in args if isinstance(a, ShadowArray)]
        res = func(*[strip(a) for a in args], **{k: strip(v) for k, v in kwargs.items()})
        if isinstance(res, np.ndarray) and src and res.size and src[0]._idmap is not None and np.shares_memory(res, src[0]._plain()):
            s = src[0]
            im = func(*[(s._idmap if a is s else strip(a)) for a in args], **{k: strip(v) for k, v in kwargs.items()})
            return ShadowArray(res, s._rt, s._root, im)
        return self._rt.adopt(res)

    # -- methods that bypass __array_function__
    def _read_all(self):
        if self._idmap is not None:
            self._rt.access(self._root, self._idmap, 0)

    def reshape(self, *shape, **kw):
        return self._derive(self._plain().reshape(*shape, **kw), lambda m: m.reshape(*shape, **kw)) if self._views(self._plain().reshape(*shape, **kw)) else self._copyout(self._plain().reshape(*shape, **kw))

    def _views(self, res):
        return res.size and np.shares_memory(res, self._plain())

    def _copyout(self, res):
        self._read_all()
        return self._rt.adopt(res)

    @property
    def T(self):
        return self._derive(self._plain().T, lambda m: m.T)

    def transpose(self, *axes):
        return self._derive(self._plain().transpose(*axes), lambda m: m.transpose(*axes))

    def ravel(self, *a, **k):
        r = self._plain().ravel(*a, **k)
        return self._derive(r, lambda m: m.ravel(*a, **k)) if self._views(r) else self._copyout(r)

    def astype(self, *a, **k):
        return self._copyout(self._plain().astype(*a, **k))

    def copy(self, *a, **k):
        return self._copyout(self._plain().copy(*a, **k))

    def argsort(self, *a, **k):
        self._read_all()
        return self._plain().argsort(*a, **k)

    def cumsum(self, *a, **k):
        return self._copyout(self._plain().cumsum(*a, **k))

    def sum(self, *a, **k):
        self._read_all()
        return self._plain().sum(*a, **k)

    def max(self, *a, **k):
        self._read_all()
        return self._plain().max(*a, **k)

    def min(self, *a, **k):
        self._read_all()
        return self._plain().min(*a, **k)

    def tolist(self):
        self._read_all()
        return self._plain().tolist()

    def fill(self, v):
        if self._idmap is not None:
            self._rt.access(self._root, self._idmap, 1)
        self._plain().fill(v)

    def view(self, *a, **k):
        if not a and not k:
            return ShadowArray(self._plain(), self._rt, self._root, self._idmap)
        return np.ndarray.view(self, *a, **k)

    def __iter__(self):
        for i in range(len(self)):
            yield self[i]


def _plainkey(key):
    if isinstance(key, ShadowArray):
        key._read_all()
        return key._plain()
    if isinstance(key, tuple):
        return tuple(_plainkey(k) for k in key)
    return key


class TwinError(Exception):
    pass


# ============================================================================ runtime
class Region:
    def __init__(self, index, n, label):
        self.index, self.n, self.label = index, n, label
        self.roots, self.tasks, self.kinds, self.ids = [], [], [], []
        self.conflicts = []      # (root label, kind, element, tasks)
        self.write_counts = {}   # root id -> (min, max, n_elements_written) over elements of the root
        self.pairs_checked = 0
        self.footprints = None   # task -> {root: set(ids)} when requested


class Root:
    def __init__(self, rid, arr, label, kind):
        self.id, self.size, self.label, self.kind = rid, arr.size, label, kind
        self.arr = arr
        self.shape = arr.shape
        self.written = np.zeros(arr.size, dtype=bool) if kind == 'empty' else None


class Runtime:
    """mode: 'seq' (bodies one after another in `order`, access log + independence check)
             'sched' (bodies as baton-passing threads under `scheduler`)"""

    def __init__(self, **kw):
        self.reset(**kw)

    def reset(self, mode='seq', order=None, nthreads=16, max_threads=None, assign='chunk', scheduler=None,
              keep_footprints=False, contended=None, by_thread=False):
        """(re)initialise; twins built against this object stay valid"""
        self.mode, self.order, self.nthreads = mode, order, nthreads
        self.max_threads = max_threads or 4096
        self.assign = assign
        self.scheduler = scheduler
        self.roots = []
        self.regions = []
        self.tls = threading.local()
        self.in_region = False
        self.keep_footprints = keep_footprints
        # by_thread: the unit of concurrency is the (virtual) numba thread, not the prange iteration - iterations that run on
        # the same thread are sequential, so sharing e.g. a per-thread accumulator row between them is no conflict
        self.by_thread = by_thread
        self.contended = contended   # {region index: {root id: set(ids)}} for static reduction in sched mode
        # module-level arrays seen by twins stay registered (with fresh ids) across resets
        if not hasattr(self, 'globals_'):
            self.globals_ = []
        for sh, root in self.globals_:
            root.id = len(self.roots)
            self.roots.append(root)
            sh._root = root.id
        self.problems = []
        self.uninit_reads = []
        self.naccess = 0

    # ---- arrays
    def track(self, arr, label, kind='arg'):
        if isinstance(arr, ShadowArray) and arr._idmap is not None:
            return arr
        a = np.asarray(arr)
        rid = len(self.roots)
        self.roots.append(Root(rid, a, label, kind))
        return ShadowArray(a, self, rid, np.arange(a.size, dtype=np.int64).reshape(a.shape))

    def track_global(self, arr, label):
        """a module-level array referenced by a kernel: shared by every call, so tracked as a root that survives resets"""
        a = np.asarray(arr)
        root = Root(len(self.roots), a, label, 'global')
        self.roots.append(root)
        sh = ShadowArray(a, self, root.id, np.arange(a.size, dtype=np.int64).reshape(a.shape))
        self.globals_.append((sh, root))
        return sh

    def adopt(self, res):
        """array produced by a numpy call: new tracked root in the sequential part, private temporary in a body"""
        if isinstance(res, ShadowArray):
            if res._idmap is not None:
                return res
            res = res._plain()
        if isinstance(res, np.ndarray) and res.ndim > 0 and not self.in_region:
            return self.track(res, _callsite(), 'temp')
        if isinstance(res, tuple):
            return tuple(self.adopt(r) for r in res)
        return res

    # ---- accesses
    def cur_task(self):
        return getattr(self.tls, 'task', None)

    def access(self, root, ids, kind):
        self.naccess += 1
        r = self.roots[root]
        if r.written is not None:
            if kind:
                r.written[ids] = True
            elif not np.all(r.written[ids]):
                self.uninit_reads.append((r.label, np.asarray(ids).ravel()[:3].tolist()))
        t = self.cur_task()
        if t is None:
            return
        reg = self.regions[-1]
        if self.mode == 'sched':
            c = self.contended.get(reg.index, {}).get(root) if self.contended is not None else None
            if self.contended is None or (c is not None and _hits(c, ids)):
                self.scheduler.point(t, (root, kind))
            return
        if self.by_thread:
            t = self.thread_of(t, reg.n)
        reg.roots.append(root); reg.tasks.append(t); reg.kinds.append(kind); reg.ids.append(ids)

    # ---- virtual numba thread ids
    def thread_of(self, task, n):
        T = max(1, min(self.nthreads, n)) if self.assign != 'one' else 1
        if self.assign == 'chunk':      # numba's static schedule: contiguous chunks
            return min(task * T // n, T - 1) if n else 0
        if self.assign == 'rr':
            return task % T
        if self.assign == 'rev':
            return T - 1 - min(task * T // n, T - 1)
        if self.assign == 'one':
            return 0
        raise ValueError(self.assign)

    def get_thread_id(self):
        t = self.cur_task()
        if t is None:
            return 0
        return self.thread_of(t, self.regions[-1].n)

    # ---- parallel regions
    def parallel_for(self, n, body, label=''):
        n = int(n)
        if self.in_region:           # nested prange runs serially inside the task, as numba does
            for i in range(n):
                body(i)
            return
        reg = Region(len(self.regions), n, label)
        self.regions.append(reg)
        self.in_region = True
        try:
            if self.mode == 'sched':
                self.scheduler.run_region(self, n, body)
            else:
                order = list(range(n))
                if self.order is not None:
                    order = self.order(n) if callable(self.order) else [i for i in self.order if i < n] + [i for i in range(n) if i not in self.order]
                for i in order:
                    self.tls.task = i
                    try:
                        body(i)
                    finally:
                        self.tls.task = None
                self.analyse(reg)
        finally:
            self.in_region = False
            self.tls.task = None

    def analyse(self, reg):
        """Bernstein conditions between every pair of bodies of the region, per tracked root."""
        if not reg.roots:
            reg.pairs_checked = reg.n * (reg.n - 1)
            return
        # expand to flat (root, task, kind, id) records
        lens = [np.size(x) for x in reg.ids]
        ids = np.concatenate([np.asarray(x, dtype=np.int64).ravel() for x in reg.ids]) if lens else np.zeros(0, np.int64)
        rep = np.asarray(lens)
        roots = np.repeat(np.asarray(reg.roots, dtype=np.int64), rep)
        tasks = np.repeat(np.asarray(reg.tasks, dtype=np.int64), rep)
        kinds = np.repeat(np.asarray(reg.kinds, dtype=np.int64), rep)
        fp = {} if self.keep_footprints else None
        for rid in np.unique(roots):
            m = roots == rid
            i_, t_, k_ = ids[m], tasks[m], kinds[m]
            size = self.roots[rid].size
            w = k_ == 1
            # per-element write counts (all writes, same task included)
            wc = np.bincount(i_[w], minlength=size) if w.any() else np.zeros(size, dtype=np.int64)
            reg.write_counts[int(rid)] = (int(wc[wc > 0].min()) if (wc > 0).any() else 0, int(wc.max()) if size else 0, int((wc > 0).sum()))
            # distinct (element, task) pairs
            wp = np.unique(np.stack([i_[w], t_[w]], axis=1), axis=0) if w.any() else np.zeros((0, 2), np.int64)
            rp = np.unique(np.stack([i_[~w], t_[~w]], axis=1), axis=0) if (~w).any() else np.zeros((0, 2), np.int64)
            if len(wp):
                nw = np.bincount(wp[:, 0], minlength=size)
                ww = np.nonzero(nw > 1)[0]
                for e in ww[:3]:
                    reg.conflicts.append((self.roots[rid].label, 'write-write', int(e), sorted(set(wp[wp[:, 0] == e, 1].tolist()))))
                if len(rp):
                    nr = np.bincount(rp[:, 0], minlength=size)
                    # readers of element e other than the writer itself
                    key_r = set(map(tuple, rp.tolist())) if len(rp) < 200000 else None
                    selfr = np.array([(tuple(p) in key_r) for p in wp.tolist()], dtype=np.int64) if key_r is not None else np.zeros(len(wp), np.int64)
                    other = nr[wp[:, 0]] - selfr
                    bad = np.nonzero(other > 0)[0]
                    for b in bad[:3]:
                        e = int(wp[b, 0])
                        reg.conflicts.append((self.roots[rid].label, 'write-read', e,
                                              [int(wp[b, 1])] + sorted(set(rp[rp[:, 0] == e, 1].tolist()))))
            if fp is not None:
                for t in np.unique(t_):
                    fp.setdefault(int(t), {})[int(rid)] = (set(i_[(t_ == t) & w].tolist()), set(i_[(t_ == t) & ~w].tolist()))
        reg.pairs_checked = reg.n * (reg.n - 1)
        reg.footprints = fp
        reg.roots, reg.tasks, reg.kinds, reg.ids = [], [], [], []


def _hits(cset, ids):
    if isinstance(ids, (int, np.integer)):
        return int(ids) in cset
    a = np.asarray(ids).ravel()
    if a.size == 1:
        return int(a[0]) in cset
    return any(int(x) in cset for x in a)


def _callsite():
    f = sys._getframe(2)
    for _ in range(8):
        if f is None:
            break
        if f.f_code.co_filename.endswith(':twin'):
            return f'{f.f_code.co_name}:{f.f_lineno}'
        f = f.f_back
    return '?'


# ============================================================================ scheduler (CHESS-style)
class Point:
    __slots__ = ('enabled', 'running_enabled', 'preempt_before', 'chosen')

    def __init__(self, enabled, running_enabled, preempt_before):
        self.enabled, self.running_enabled, self.preempt_before = enabled, running_enabled, preempt_before
        self.chosen = 0


class ReplayDivergence(Exception):
    pass


class SchedulerStuck(Exception):
    pass


class Scheduler:
    """Runs the bodies of one parallel region as threads, exactly one running at a time; at every scheduling
    point the next thread is `enabled[choice]` with enabled in canonical order (running thread first if still
    enabled, then ascending ids).  Choices come from `prefix`, then 0."""

    def __init__(self, prefix=(), horizon=200000, stuck_after=90.0):
        self.stuck_after = stuck_after
        self.prefix = list(prefix)
        self.points = []
        self.trace = []       # (task, info) in execution order
        self.horizon = horizon
        self.error = None
        self.preemptions = 0     # accumulated over all parallel regions of the execution

    def point(self, task, info):
        if getattr(self._tls, 'task', None) is None:
            return
        self.trace.append((task, info))
        self._state[task] = 'blocked'
        self._ctrl.release()
        self._sems[task].acquire()
        if self._abort:
            raise _Abort()

    def run_region(self, rt, n, body):
        self._tls = rt.tls
        self._sems = [threading.Semaphore(0) for _ in range(n)]
        self._ctrl = threading.Semaphore(0)
        self._state = ['ready'] * n
        self._abort = False
        errs = []

        def task(i):
            self._sems[i].acquire()
            rt.tls.task = i
            try:
                if not self._abort:
                    body(i)
            except _Abort:
                pass
            except BaseException as e:  # noqa
                errs.append(e)
            finally:
                rt.tls.task = None
                self._state[i] = 'done'
                self._ctrl.release()
        ths = [threading.Thread(target=task, args=(i,), daemon=True) for i in range(n)]
        for t in ths:
            t.start()
        running = None
        preempt = self.preemptions
        steps = 0
        while True:
            enabled = [i for i in range(n) if self._state[i] != 'done']
            if not enabled or errs:
                break
            re_ = running is not None and self._state[running] != 'done'
            order = ([running] if re_ else []) + [i for i in enabled if i != running or not re_]
            k = len(self.points)
            p = Point(order, re_, preempt)
            if len(order) > 1:
                c = self.prefix[k] if k < len(self.prefix) else 0
                if c >= len(order):
                    self._abort = True
                    for i in enabled:
                        self._sems[i].release()
                    raise ReplayDivergence(f'choice {c} out of range at point {k} (enabled {order})')
                p.chosen = c
                self.points.append(p)
            else:
                c = 0
            nxt = order[c]
            if re_ and nxt != running:
                preempt += 1
            running = nxt
            steps += 1
            if steps > self.horizon:
                errs.append(TwinError('schedule horizon exceeded'))
                break
            self.preemptions = preempt
            self._sems[nxt].release()
            if not self._ctrl.acquire(timeout=self.stuck_after):
                # the running thread neither reached a scheduling point nor finished: it is blocked on something the
                # scheduler does not own (a real lock held by a paused thread, I/O); this exploration is inconclusive
                self._abort = True
                # let every paused thread run on (point() raises _Abort in it, which unwinds `with lock:` blocks and frees
                # whatever the blocked thread is waiting for), then give them a moment to finish
                for i in range(n):
                    self._sems[i].release()
                for t_ in ths:
                    t_.join(5)
                raise SchedulerStuck(f'thread {nxt} blocked outside the scheduler at step {steps}')
        if errs:
            self._abort = True
            for i in range(n):
                if self._state[i] != 'done':
                    self._sems[i].release()
            for t in ths:
                t.join(2)
            raise errs[0]
        for t in ths:
            t.join()
        self.preemptions = preempt


class _Abort(BaseException):
    pass


def explore(run_one, bound, max_exec=None):
    """CHESS loop.  run_one(prefix) -> (Scheduler, result).  Yields (choices, preemptions, result) for every
    execution with at most `bound` preemptions.  Complete unless max_exec is hit (then the generator's
    `.capped` semantics are signalled by a final ('CAPPED', n, None) item)."""
    stack = [[]]
    n = 0
    while stack:
        prefix = stack.pop()
        sch, res = run_one(prefix)
        n += 1
        choices = [p.chosen for p in sch.points]
        yield choices, sch.preemptions, res
        if max_exec is not None and n >= max_exec:
            yield 'CAPPED', n, None
            return
        for i in range(len(prefix), len(sch.points)):
            p = sch.points[i]
            for alt in range(1, len(p.enabled)):
                cost = p.preempt_before + (1 if p.running_enabled else 0)
                if cost > bound:
                    continue
                stack.append(choices[:i] + [alt])


def count_schedules(lengths, bound):
    """Closed-form (DP) number of executions explore() must produce for threads with the given numbers of
    scheduling points each and preemption bound - used by the explorer self-check."""
    from functools import lru_cache
    n = len(lengths)

    @lru_cache(None)
    def f(rem, running, b):
        # rem: tuple of remaining points per thread (a thread with -1 is finished)
        alive = [i for i in range(n) if rem[i] >= 0]
        if not alive:
            return 1
        total = 0
        run_alive = running is not None and rem[running] >= 0
        for i in alive:
            cost = 1 if (run_alive and i != running) else 0
            if cost > b:
                continue
            r = list(rem)
            r[i] -= 1
            total += f(tuple(r), i, b - cost)
        return total
    return f(tuple(lengths), None, bound)


# ============================================================================ twin construction
class _Lower(ast.NodeTransformer):
    def __init__(self, fname):
        self.k = 0
        self.fname = fname

    def visit_FunctionDef(self, node):
        node.decorator_list = []
        node.body = self._block(node.body, node)
        return node

    def _block(self, stmts, func):
        out = []
        for idx, st in enumerate(stmts):
            if isinstance(st, ast.For) and _is_prange(st.iter):
                if st.orelse:
                    raise TwinError('prange loop with else')
                st.body = self._block(st.body, func)
                out.extend(self._lower(st, stmts[idx + 1:], func))
            else:
                for f in ('body', 'orelse', 'finalbody'):
                    if hasattr(st, f) and isinstance(getattr(st, f), list) and not isinstance(st, ast.FunctionDef):
                        setattr(st, f, self._block(getattr(st, f), func))
                out.append(st)
        return out

    def _lower(self, loop, following, func):
        if not isinstance(loop.target, ast.Name):
            raise TwinError('prange target is not a simple name')
        var = loop.target.id
        stored = {n.id for s in loop.body for n in ast.walk(s) if isinstance(n, ast.Name) and isinstance(n.ctx, ast.Store)}
        stored.discard(var)
        # (1) loop-carried: first occurrence in the body is a read/augmented assignment of a name the body stores
        seen = set()
        reductions = set()
        for s in loop.body:
            for n in _names_in_order(s):
                if n[0] in stored and n[0] not in seen:
                    seen.add(n[0])
                    if n[1] == 'aug' and all(k == 'aug' for (nm, k) in (x for st_ in loop.body for x in _names_in_order(st_)) if nm == n[0]):
                        reductions.add(n[0])      # a pure scalar reduction (x += ...): shared accumulator, numba reduces it safely
                        continue
                    if n[1] != 'store':
                        raise TwinError(f'{self.fname}: `{n[0]}` is loop-carried across prange iterations (reduction); closure conversion would change meaning')
        # (2) value used after the loop (reductions are meant to be)
        live = (set(stored) - reductions) | {var}
        for s in following:
            for n in _names_in_order(s):
                if n[0] in live:
                    if n[1] == 'store':
                        live.discard(n[0])
                    else:
                        raise TwinError(f'{self.fname}: `{n[0]}` assigned in a prange body is read after the loop')
        self.k += 1
        name = f'__body_{self.k}'
        body = [_continue_to_return(st_) for st_ in loop.body]
        if reductions:
            body = [ast.Nonlocal(names=sorted(reductions))] + body
        if len(loop.iter.args) == 1:
            n_expr = loop.iter.args[0]
        elif len(loop.iter.args) == 2:
            # prange(start, stop): iterate over range(stop - start) and shift the index first thing in the body
            start, stop = loop.iter.args
            n_expr = ast.BinOp(left=stop, op=ast.Sub(), right=start)
            shift = ast.Assign(targets=[ast.Name(id=var, ctx=ast.Store())],
                               value=ast.BinOp(left=ast.Name(id=var, ctx=ast.Load()), op=ast.Add(), right=start), lineno=loop.lineno)
            k0 = 1 if (body and isinstance(body[0], ast.Nonlocal)) else 0
            body = body[:k0] + [shift] + body[k0:]
        else:
            raise TwinError('prange with a step is not supported')
        fn = ast.FunctionDef(name=name, args=ast.arguments(posonlyargs=[], args=[ast.arg(arg=var)], kwonlyargs=[], kw_defaults=[], defaults=[]),
                             body=body, decorator_list=[], returns=None, type_comment=None, type_params=[])
        call = ast.Expr(ast.Call(func=ast.Attribute(value=ast.Name(id='__rt', ctx=ast.Load()), attr='parallel_for', ctx=ast.Load()),
                                 args=[n_expr, ast.Name(id=name, ctx=ast.Load()), ast.Constant(value=f'{self.fname}:{loop.lineno}')], keywords=[]))
        return [ast.copy_location(fn, loop), ast.copy_location(call, loop)]


def _continue_to_return(node):
    """`continue` that belongs to the prange loop itself (not to an inner loop) ends the closure call"""
    class T(ast.NodeTransformer):
        def visit_For(self, n):
            return n

        def visit_While(self, n):
            return n

        def visit_FunctionDef(self, n):
            return n

        def visit_Continue(self, n):
            return ast.copy_location(ast.Return(value=None), n)
    return T().visit(node)


def _is_prange(it):
    if not isinstance(it, ast.Call):
        return False
    f = it.func
    return (isinstance(f, ast.Attribute) and f.attr == 'prange') or (isinstance(f, ast.Name) and f.id == 'prange')


def _names_in_order(stmt):
    """(name, 'load'|'store'|'aug') in approximate evaluation order"""
    out = []

    def visit(n):
        if isinstance(n, ast.Assign):
            visit(n.value)
            for t in n.targets:
                visit(t)
        elif isinstance(n, ast.AugAssign):
            if isinstance(n.target, ast.Name):
                out.append((n.target.id, 'aug'))
            else:
                visit(n.target)
            visit(n.value)
        elif isinstance(n, ast.AnnAssign):
            if n.value:
                visit(n.value)
            visit(n.target)
        elif isinstance(n, ast.For):
            visit(n.iter)
            visit(n.target)
            for s in n.body + n.orelse:
                visit(s)
        elif isinstance(n, ast.Name):
            out.append((n.id, 'store' if isinstance(n.ctx, ast.Store) else 'load'))
        elif isinstance(n, (ast.FunctionDef, ast.Lambda)):
            pass
        else:
            for c in ast.iter_child_nodes(n):
                visit(c)
    visit(stmt)
    return out


class VNumba:
    """Virtual `numba` seen by twins (the real module is never patched)."""

    def __init__(self, rt):
        import numba
        self._rt = rt
        self._real = numba
        self.prange = range

    @property
    def config(self):
        real = self._real.config

        class _Cfg:
            NUMBA_NUM_THREADS = self._rt.max_threads if self._rt.max_threads < 4096 else 16

            def __getattr__(self, k):      # every other setting: the real one
                return getattr(real, k)
        return _Cfg()

    def set_num_threads(self, n):
        n = int(n)
        if n < 1 or n > self._rt.max_threads:
            raise ValueError(f'The number of threads must be between 1 and {self._rt.max_threads}')
        self._rt.nthreads = n

    def get_num_threads(self):
        return self._rt.nthreads

    def get_thread_id(self):
        return self._rt.get_thread_id()

    def __getattr__(self, k):
        return getattr(self._real, k)


class NpProxy:
    """`np` seen by twins: arrays created by numpy calls in the sequential part of a kernel become tracked roots
    (np.empty results are additionally marked uninitialised so a read-before-write is noticed)."""

    def __init__(self, rt):
        self._rt = rt

    def __getattr__(self, k):
        v = getattr(np, k)
        rt = self._rt
        if k in ('empty', 'empty_like', 'zeros', 'zeros_like', 'ones', 'full', 'arange', 'linspace', 'array', 'ascontiguousarray',
                 'cumsum', 'concatenate', 'rint', 'asarray', 'diff', 'where', 'sqrt', 'floor'):
            def wrapped(*a, **kw):
                if k in ('empty', 'empty_like', 'zeros', 'zeros_like'):
                    a = tuple(x._plain() if isinstance(x, ShadowArray) else x for x in a)
                res = v(*a, **kw)
                if isinstance(res, ShadowArray) and res._idmap is not None:
                    return res
                if isinstance(res, np.ndarray) and res.ndim > 0 and not rt.in_region:
                    if isinstance(res, ShadowArray):
                        res = res._plain()
                    if k in ('empty', 'empty_like'):
                        if res.dtype.kind == 'f':
                            res.fill(np.nan)
                        elif res.dtype.kind in 'iu':
                            res.fill(np.iinfo(res.dtype).max // 3)
                    return rt.track(res, _callsite() + ':' + k, 'empty' if k in ('empty', 'empty_like') else 'temp')
                return res._plain() if isinstance(res, ShadowArray) and res._idmap is None else res
            return wrapped
        return v


class ModuleProxy:
    def __init__(self, mod, tw):
        self._mod, self._tw = mod, tw

    def __getattr__(self, k):
        return self._tw.subst(getattr(self._mod, k))


class Twins:
    """Factory/cache of twins bound to one Runtime."""

    def __init__(self, rt, interpret_nested=True):
        self.rt = rt
        self.cache = {}
        self._garrays = {}
        self.vnumba = VNumba(rt)
        self.npproxy = NpProxy(rt)

    def pyfunc(self, obj):
        if hasattr(obj, 'py_func'):
            return obj.py_func
        d = getattr(obj, '_dispatcher', None)
        if d is not None and hasattr(d, 'py_func'):
            return d.py_func
        return None

    def subst(self, val):
        import numba
        if val is numba:
            return self.vnumba
        if val is np:
            return self.npproxy
        if isinstance(val, types.ModuleType) and val.__name__.startswith('abacusnbody'):
            return ModuleProxy(val, self)
        if self.pyfunc(val) is not None:
            return _Lazy(self, val)
        if isinstance(val, np.ndarray) and not isinstance(val, ShadowArray) and val.ndim >= 1 and val.size:
            key = id(val)
            if key not in self._garrays:
                self._garrays[key] = self.rt.track_global(val, 'module-level array')
            return self._garrays[key]
        return val

    def twin(self, disp):
        pf = self.pyfunc(disp) or disp
        key = id(pf)
        if key in self.cache:
            return self.cache[key]
        import linecache
        linecache.checkcache(pf.__code__.co_filename)
        src = textwrap.dedent(inspect.getsource(pf))
        tree = ast.parse(src)
        fdef = tree.body[0]
        if not isinstance(fdef, ast.FunctionDef):
            raise TwinError('not a function')
        _Lower(fdef.name).visit(tree)
        ast.fix_missing_locations(tree)
        g = {}
        for k, v in pf.__globals__.items():
            g[k] = self.subst(v)
        g['__rt'] = self.rt
        g['__builtins__'] = pf.__globals__.get('__builtins__', __builtins__)
        code = compile(tree, pf.__code__.co_filename + ':twin', 'exec')
        exec(code, g)
        fn = g[fdef.name]
        base = inspect.unwrap(pf)        # (the source came from the innermost function of a functools.wraps chain)
        fn.__defaults__ = base.__defaults__
        fn.__kwdefaults__ = base.__kwdefaults__
        self.cache[key] = fn
        return fn


class _Lazy:
    def __init__(self, tw, disp):
        self._tw, self._disp = tw, disp

    def __call__(self, *a, **k):
        return self._tw.twin(self._disp)(*a, **k)

    def __getattr__(self, k):
        return getattr(self._disp, k)


# ============================================================================ self-checks
def selfcheck():
    """The explorer must (1) enumerate exactly the DP count of schedules, (2) find the lost update of a
    non-atomic counter, (3) never fail a disjoint-writes kernel, (4) replay deterministically, (5) refuse an
    out-of-range replay choice."""
    out = {}

    def make(nthreads, per, shared):
        def run(prefix):
            sch = Scheduler(prefix)
            rt = Runtime(mode='sched', scheduler=sch)
            a = rt.track(np.zeros(nthreads if not shared else 1, dtype=np.int64), 'ctr')

            def body(i):
                for _ in range(per):
                    k = 0 if shared else i
                    a[k] += 1
            rt.parallel_for(nthreads, body)
            return sch, a._plain().copy()
        return run
    # (1) counts: each `a[k] += 1` is two points; the first point of a thread happens before its first access
    for (n, per, b) in ((2, 1, 0), (2, 1, 1), (2, 2, 2), (3, 1, 1), (3, 1, 2)):
        res = [r for r in explore(make(n, per, True), b) if r[0] != 'CAPPED']
        want = count_schedules([2 * per] * n, b)
        if len(res) != want:
            raise TwinError(f'explorer self-check: {len(res)} schedules for n={n} per={per} bound={b}, DP says {want}')
        if len({tuple(c) for c, _, _ in res}) != len(res):
            raise TwinError('explorer self-check: duplicate schedules')
        out[(n, per, b)] = want
    # (2) lost update needs exactly one preemption
    r0 = [int(r[0]) for c, p, r in explore(make(2, 1, True), 0)]
    r1 = [int(r[0]) for c, p, r in explore(make(2, 1, True), 1)]
    if set(r0) != {2} or 1 not in r1:
        raise TwinError(f'explorer self-check: lost update not found as expected (bound0 {set(r0)}, bound1 {set(r1)})')
    # (3) disjoint writes: no scheduling-dependent outcome
    r = {tuple(r.tolist()) for c, p, r in explore(make(3, 1, False), 2)}
    if r != {(1, 1, 1)}:
        raise TwinError('explorer self-check: disjoint kernel gave differing outcomes')
    # (4) deterministic replay
    res = [x for x in explore(make(2, 2, True), 2)]
    c = res[len(res) // 2][0]
    s1, a1 = make(2, 2, True)(c)
    s2, a2 = make(2, 2, True)(c)
    if s1.trace != s2.trace or not np.array_equal(a1, a2):
        raise TwinError('explorer self-check: replay not deterministic')
    # (5) out-of-range choice
    try:
        make(2, 1, True)([5])
        raise TwinError('explorer self-check: out-of-range choice accepted')
    except ReplayDivergence:
        pass
    return out


# ============================================================================ line-level interleaving of pure-Python callables
class ModuleState:
    """Snapshot / restore of a module's global bindings (containers and arrays are copied), so that every explored
    execution starts from the state the module had right after import (lazily built caches included)."""

    def __init__(self, mod):
        import copy
        self.mod = mod
        self.saved = {}
        for k, v in mod.__dict__.items():
            if isinstance(v, (dict, list, set, np.ndarray)) and not k.startswith('__'):
                self.saved[k] = ('copy', copy.copy(v))
            else:
                self.saved[k] = ('ref', v)

    def restore(self):
        import copy
        d = self.mod.__dict__
        for k in [k for k in d if k not in self.saved]:
            del d[k]
        for k, (how, v) in self.saved.items():
            d[k] = copy.copy(v) if how == 'copy' else v


def explore_lines(calls, file_filter, bound, modules=(), max_exec=None):
    """Run the zero-argument callables `calls` as concurrent threads, with a scheduling point before every source line
    executed in files accepted by `file_filter`; enumerate all schedules with <= bound preemptions (CHESS).
    Yields (choices, preemptions, results list)."""
    states = [ModuleState(m) for m in modules]

    def run_one(prefix):
        for st in states:
            st.restore()
        sch = Scheduler(prefix, stuck_after=15.0)
        rt = Runtime(mode='sched', scheduler=sch)
        results = [None] * len(calls)

        def body(i):
            def local(frame, event, arg):
                if event == 'line':
                    sch.point(i, (frame.f_code.co_name, frame.f_lineno))
                return local

            def tracer(frame, event, arg):
                if event == 'call' and file_filter(frame.f_code.co_filename):
                    return local
                return None
            sys.settrace(tracer)
            try:
                results[i] = calls[i]()
            finally:
                sys.settrace(None)
        rt.regions.append(Region(0, len(calls), 'lines'))
        sch.run_region(rt, len(calls), body)
        return sch, results
    yield from explore(run_one, bound, max_exec=max_exec)
    for st in states:
        st.restore()


def concurrent_calls(rt, calls):
    """Run the zero-argument callables (twin calls on SEPARATE argument arrays) as the bodies of one parallel region and
    return (results, conflicts): any conflict is two calls touching the same element of shared (module-level) state
    with at least one write - concurrent use of the kernel from two threads would race on it."""
    rt.reset(mode='seq')
    results = [None] * len(calls)

    def body(i):
        results[i] = calls[i]()
    rt.parallel_for(len(calls), body, 'concurrent-calls')
    reg = rt.regions[-1]
    return results, list(reg.conflicts)
